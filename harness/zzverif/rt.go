//go:build verif

// Package zzverif is the harness API. The symbolic engine intercepts these
// functions by name; this native implementation is used only to replay a
// counterexample (values read from the JSON file named by VERIF_CEX).
package zzverif

import (
	"encoding/json"
	"fmt"
	"math"
	"os"
	"reflect"
	"time"
	"unsafe"
)

var (
	vals   map[string]json.RawMessage
	counts = map[string]int{}
	// Failed collects the ids of failed assertions during a native replay.
	Failed  []string
	Reached []string
)

type AssumeViolated struct{ Where string }

func load() {
	if vals != nil {
		return
	}
	vals = map[string]json.RawMessage{}
	p := os.Getenv("VERIF_CEX")
	if p == "" {
		return
	}
	b, err := os.ReadFile(p)
	if err != nil {
		panic(err)
	}
	var top struct {
		Inputs map[string]json.RawMessage `json:"inputs"`
	}
	if err := json.Unmarshal(b, &top); err != nil {
		panic(err)
	}
	vals = top.Inputs
	if vals == nil {
		vals = map[string]json.RawMessage{}
	}
}

func key(name string) string {
	k := counts[name]
	counts[name] = k + 1
	if k == 0 {
		return name
	}
	return fmt.Sprintf("%s@%d", name, k)
}

func u64(name string) uint64 {
	load()
	raw, ok := vals[key(name)]
	if !ok {
		return 0
	}
	var n json.Number
	if err := json.Unmarshal(raw, &n); err != nil {
		var b bool
		if err2 := json.Unmarshal(raw, &b); err2 == nil {
			if b {
				return 1
			}
			return 0
		}
		panic(err)
	}
	var u uint64
	if _, err := fmt.Sscan(n.String(), &u); err != nil {
		var i int64
		if _, err2 := fmt.Sscan(n.String(), &i); err2 != nil {
			panic(err)
		}
		u = uint64(i)
	}
	return u
}

func Int64(name string) int64   { return int64(u64(name)) }
func Uint64(name string) uint64 { return u64(name) }
func Int(name string) int       { return int(int64(u64(name))) }
func Uint32(name string) uint32 { return uint32(u64(name)) }
func Int32(name string) int32   { return int32(u64(name)) }
func Uint16(name string) uint16 { return uint16(u64(name)) }
func Int16(name string) int16   { return int16(u64(name)) }
func Uint8(name string) uint8   { return uint8(u64(name)) }
func Int8(name string) int8     { return int8(u64(name)) }
func Byte(name string) byte     { return byte(u64(name)) }

func Bool(name string) bool {
	load()
	raw, ok := vals[key(name)]
	if !ok {
		return false
	}
	var b bool
	if err := json.Unmarshal(raw, &b); err != nil {
		var n int
		if err2 := json.Unmarshal(raw, &n); err2 != nil {
			panic(err)
		}
		return n != 0
	}
	return b
}

func Float64(name string) float64 {
	load()
	raw, ok := vals[key(name)]
	if !ok {
		return 0
	}
	var o struct {
		Bits uint64 `json:"f64bits"`
	}
	if err := json.Unmarshal(raw, &o); err != nil {
		panic(err)
	}
	return math.Float64frombits(o.Bits)
}

func Bytes(name string, n int) []byte {
	load()
	raw, ok := vals[key(name)]
	out := make([]byte, n)
	if !ok {
		return out
	}
	var xs []int
	if err := json.Unmarshal(raw, &xs); err != nil {
		panic(err)
	}
	for i := range out {
		if i < len(xs) {
			out[i] = byte(xs[i])
		}
	}
	return out
}

func Int64s(name string, n int) []int64 {
	load()
	raw, ok := vals[key(name)]
	out := make([]int64, n)
	if !ok {
		return out
	}
	var xs []json.Number
	if err := json.Unmarshal(raw, &xs); err != nil {
		panic(err)
	}
	for i := range out {
		if i < len(xs) {
			var u uint64
			if _, err := fmt.Sscan(xs[i].String(), &u); err != nil {
				var v int64
				fmt.Sscan(xs[i].String(), &v)
				u = uint64(v)
			}
			out[i] = int64(u)
		}
	}
	return out
}

func String(name string) string {
	load()
	raw, ok := vals[key(name)]
	if !ok {
		return "s:" + name
	}
	var s string
	json.Unmarshal(raw, &s)
	return s
}

func Assume(c bool) {
	if !c {
		panic(AssumeViolated{})
	}
}

func Assert(c bool, id string) {
	if !c {
		Failed = append(Failed, id)
		fmt.Printf("ASSERT-FAILED %s\n", id)
	}
}

func Reach(id string) {
	Reached = append(Reached, id)
	fmt.Printf("REACHED %s\n", id)
}

// Panics runs f and reports whether it panicked.
func Panics(f func()) (p bool) {
	defer func() {
		if r := recover(); r != nil {
			if _, ok := r.(AssumeViolated); ok {
				panic(r)
			}
			p = true
		}
	}()
	f()
	return false
}

func TimeNs(ns int64) time.Time { return time.Unix(0, ns).UTC() }

func TimeUnix(sec, nsec int64) time.Time { return time.Unix(sec, nsec).UTC() }

var timeType = reflect.TypeOf(time.Time{})

// Havoc fills *p with an arbitrary value of its type: integers, booleans, floats, time.Time,
// and structs/arrays of those (leaf names: name.Field, name[i]); pointers, slices, maps,
// interfaces and strings are left zero.
func Havoc(name string, p any) {
	rv := reflect.ValueOf(p).Elem()
	havoc(name, rv)
}

func settable(rv reflect.Value) reflect.Value {
	if rv.CanSet() {
		return rv
	}
	return reflect.NewAt(rv.Type(), unsafe.Pointer(rv.UnsafeAddr())).Elem()
}

func uints(name string, n int) []uint64 {
	load()
	raw, ok := vals[key(name)]
	out := make([]uint64, n)
	if !ok {
		return out
	}
	var xs []json.Number
	if err := json.Unmarshal(raw, &xs); err != nil {
		panic(err)
	}
	for i := range out {
		if i < len(xs) {
			var u uint64
			if _, err := fmt.Sscan(xs[i].String(), &u); err != nil {
				var x int64
				fmt.Sscan(xs[i].String(), &x)
				u = uint64(x)
			}
			out[i] = u
		}
	}
	return out
}

func havoc(name string, rv reflect.Value) {
	rv = settable(rv)
	if rv.Type() == timeType {
		rv.Set(reflect.ValueOf(TimeNs(Int64(name))))
		return
	}
	switch rv.Kind() {
	case reflect.Int, reflect.Int8, reflect.Int16, reflect.Int32, reflect.Int64:
		bits := rv.Type().Bits()
		u := u64(name)
		rv.SetInt(int64(u<<(64-bits)) >> (64 - bits))
	case reflect.Uint, reflect.Uint8, reflect.Uint16, reflect.Uint32, reflect.Uint64, reflect.Uintptr:
		bits := rv.Type().Bits()
		u := u64(name)
		rv.SetUint(u << (64 - bits) >> (64 - bits))
	case reflect.Bool:
		rv.SetBool(Bool(name))
	case reflect.Float64, reflect.Float32:
		rv.SetFloat(Float64(name))
	case reflect.Struct:
		for i := 0; i < rv.NumField(); i++ {
			havoc(name+"."+rv.Type().Field(i).Name, rv.Field(i))
		}
	case reflect.Array:
		ek := rv.Type().Elem().Kind()
		switch ek {
		case reflect.Int, reflect.Int8, reflect.Int16, reflect.Int32, reflect.Int64:
			xs := uints(name, rv.Len())
			bits := rv.Type().Elem().Bits()
			for i := 0; i < rv.Len(); i++ {
				settable(rv.Index(i)).SetInt(int64(xs[i]<<(64-bits)) >> (64 - bits))
			}
		case reflect.Uint, reflect.Uint8, reflect.Uint16, reflect.Uint32, reflect.Uint64:
			xs := uints(name, rv.Len())
			bits := rv.Type().Elem().Bits()
			for i := 0; i < rv.Len(); i++ {
				settable(rv.Index(i)).SetUint(xs[i] << (64 - bits) >> (64 - bits))
			}
		default:
			for i := 0; i < rv.Len(); i++ {
				havoc(fmt.Sprintf("%s[%d]", name, i), rv.Index(i))
			}
		}
	}
}

// SynctestEpoch is the instant at which a testing/synctest bubble starts (2000-01-01T00:00:00Z).
const SynctestEpoch = 946684800

// SetNow declares the current wall-clock time seen by time.Now(). Natively the replay runs inside a
// testing/synctest bubble whose clock starts at SynctestEpoch: only that start is supported.
func SetNow(t time.Time) {
	if d := t.Sub(time.Now()); d > 0 {
		time.Sleep(d)
	}
}

// AdvanceNow lets d pass on the wall clock seen by time.Now().
func AdvanceNow(d time.Duration) {
	if d > 0 {
		time.Sleep(d)
	}
}

// BlockedSenders: number of goroutines blocked in a channel send (known only to the symbolic scheduler
// model; natively 0).
func BlockedSenders() int { return 0 }

// WaitsAfterDeadline: number of goroutines that evaluated a blocking select / receive after having taken
// a deadline (ctx.Done) case (known only to the symbolic scheduler model; natively 0 - the native replay
// measures the return time under testing/synctest instead).
func WaitsAfterDeadline() int { return 0 }

// RawInt reads a counterexample value by its exact name (native replay only; no occurrence counter).
func RawInt(name string, dflt int64) int64 {
	load()
	raw, ok := vals[name]
	if !ok {
		return dflt
	}
	var n json.Number
	if err := json.Unmarshal(raw, &n); err != nil {
		return dflt
	}
	if i, err := n.Int64(); err == nil {
		return i
	}
	return dflt
}

// CtxFired reports whether the context has been cancelled / has expired.
func CtxFired(ctx interface{ Err() error }) bool { return ctx.Err() != nil }

// Native reports whether the harness runs natively (replay) rather than under the symbolic engine.
func Native() bool { return true }

// MapExtraLen tells the symbolic engine that map m holds n further entries that are not materialised
// (natively the harness inserts real entries instead; this is a no-op).
func MapExtraLen(m any, n int) {}

// MutexHeld reports whether mu is currently locked.
func MutexHeld(mu interface {
	TryLock() bool
	Unlock()
}) bool {
	if mu.TryLock() {
		mu.Unlock()
		return false
	}
	return true
}

// Obligation returns the id of the obligation a native replay is about (from the counterexample file).
func Obligation() string {
	p := os.Getenv("VERIF_CEX")
	if p == "" {
		return ""
	}
	b, err := os.ReadFile(p)
	if err != nil {
		return ""
	}
	var top struct {
		Obligation string `json:"obligation"`
	}
	json.Unmarshal(b, &top)
	return top.Obligation
}
