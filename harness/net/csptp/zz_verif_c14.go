//go:build verif

package csptp

import (
	v "example.com/scion-time/zzverif"
)

func VerifC14CSPTPMessage() {
	var m, q Message
	v.Havoc("m", &m)
	b := make([]byte, MinMessageLength)
	EncodeMessage(b, &m)
	err := DecodeMessage(&q, b)
	v.Assert(err == nil, "C14.csptp.msg-decode-accepts-encoded")
	v.Assert(m == q, "C14.csptp.msg-value-roundtrip")
	// bytes -> value -> bytes
	in := v.Bytes("in", 48)
	n := v.Int("n")
	v.Assume(0 <= n && n <= 48)
	var r Message
	err = DecodeMessage(&r, in[:n])
	v.Assert((err == nil) == (n >= MinMessageLength), "C14.csptp.msg-accepts-iff-at-least-44-bytes")
	if err == nil {
		out := make([]byte, MinMessageLength)
		EncodeMessage(out, &r)
		for i := 0; i < MinMessageLength; i++ {
			v.Assert(out[i] == in[i], "C14.csptp.msg-bytes-roundtrip")
		}
	}
	v.Reach("C14.csptpmsg")
}

func VerifC14CSPTPRequestTLV() {
	var t, q RequestTLV
	v.Havoc("t", &t)
	n := EncodedRequestTLVLength(&t)
	v.Assert(n == 36 || n == 54, "C14.csptp.reqtlv-declared-lengths")
	v.Assert(n <= MaxEncodedRequestTLVLength, "C14.csptp.reqtlv-max-length")
	b := make([]byte, n)
	EncodeRequestTLV(b, &t)
	err := DecodeRequestTLV(&q, b)
	v.Assert(err == nil, "C14.csptp.reqtlv-decode-accepts-encoded")
	v.Assert(t == q, "C14.csptp.reqtlv-value-roundtrip")
	// a buffer one byte short of the declared length is rejected, never read past its end
	var r RequestTLV
	err = DecodeRequestTLV(&r, b[:n-1])
	v.Assert(err != nil, "C14.csptp.reqtlv-short-buffer-rejected")
	v.Reach("C14.csptpreq")
}

func VerifC14CSPTPResponseTLV() {
	var t, q ResponseTLV
	v.Havoc("t", &t)
	n := EncodedResponseTLVLength(&t)
	v.Assert(n == 36 || n == 54, "C14.csptp.resptlv-declared-lengths")
	b := make([]byte, n)
	EncodeResponseTLV(b, &t)
	err := DecodeResponseTLV(&q, b)
	v.Assert(err == nil, "C14.csptp.resptlv-decode-accepts-encoded")
	if t.FlagField&TLVFlagServerStateDS == 0 {
		// the server state data set is not on the wire
		t.ServerStateDS = ServerStateDS{}
	}
	v.Assert(t == q, "C14.csptp.resptlv-value-roundtrip")
	var r ResponseTLV
	err = DecodeResponseTLV(&r, b[:n-1])
	v.Assert(err != nil, "C14.csptp.resptlv-short-buffer-rejected")
	// bytes -> value -> bytes at the declared length
	in := v.Bytes("in", 54)
	var s ResponseTLV
	if DecodeResponseTLV(&s, in) == nil {
		k := EncodedResponseTLVLength(&s)
		out := make([]byte, k)
		EncodeResponseTLV(out, &s)
		for i := 0; i < 54; i++ {
			if i < k {
				v.Assert(out[i] == in[i], "C14.csptp.resptlv-bytes-roundtrip")
			}
		}
	}
	v.Reach("C14.csptpresp")
}
