//go:build verif

package csptp

import (
	"time"

	v "example.com/scion-time/zzverif"
)

// CSPTP timestamps round-trip exactly over the 48-bit seconds range (pair time model)
func VerifC18Timestamp() {
	sec, ns := v.Int64("sec"), v.Int64("ns")
	v.Assume(0 <= ns && ns < 1000000000)
	v.Assume(0 <= sec && sec <= 1<<48-1)
	t := time.Unix(sec, ns).UTC()
	ts := TimestampFromTime(t)
	u := TimeFromTimestamp(ts)
	v.Assert(u.Unix() == sec, "C18.timestamp.seconds")
	v.Assert(int64(u.Nanosecond()) == ns, "C18.timestamp.nanos")
	v.Assert(u.Equal(t), "C18.timestamp.equal")
	v.Assert(int64(ts.Nanoseconds) == ns, "C18.timestamp.field-nanos")
	v.Reach("C18.timestamp")
}

// the two documented panics happen exactly outside [0, 2^48)
func VerifC18TimestampPanics() {
	sec, ns := v.Int64("sec"), v.Int64("ns")
	v.Assume(0 <= ns && ns < 1000000000)
	v.Assume(-(1<<50) <= sec && sec <= 1<<50)
	t := time.Unix(sec, ns).UTC()
	p := v.Panics(func() { TimestampFromTime(t) })
	v.Assert(p == (sec < 0 || sec > 1<<48-1), "C18.timestamp.panics-exactly-outside-range")
	v.Reach("C18.timestamppanics")
}

// arbitrary wire timestamp -> time -> timestamp reproduces seconds; nanoseconds below 1e9 are kept
func VerifC18TimestampFromWire() {
	var ts Timestamp
	for i := 0; i < 6; i++ {
		ts.Seconds[i] = v.Uint8("s")
	}
	ts.Nanoseconds = v.Uint32("nanos")
	v.Assume(ts.Nanoseconds < 1000000000)
	back := TimestampFromTime(TimeFromTimestamp(ts))
	v.Assert(back == ts, "C18.timestamp.wire-roundtrip")
	v.Reach("C18.timestampwire")
}

// correction fields convert by dropping the 16 sub-nanosecond bits (floor)
func VerifC18Interval() {
	i := v.Int64("i")
	d := int64(DurationFromTimeInterval(i))
	v.Assert(-(1<<47) <= d && d < 1<<47, "C18.interval.range")
	v.Assert(d<<16 <= i, "C18.interval.floor-lo")
	v.Assert(i-(d<<16) < 65536, "C18.interval.floor-hi")
	v.Reach("C18.interval")
}

// offset and mean path delay recover the true offset and the symmetric delay exactly (ns64 model)
func VerifC18Formulas() {
	t0n, t2n := v.Int64("t0"), v.Int64("t2")
	theta, d := v.Int64("theta"), v.Int64("d")
	c1, c3, utc := v.Int64("c1"), v.Int64("c3"), v.Int64("utc")
	const lim = 1 << 58
	v.Assume(0 <= t0n && t0n < lim && 0 <= t2n && t2n < lim)
	v.Assume(-lim < theta && theta < lim && 0 <= d && d < lim)
	v.Assume(-lim < c1 && c1 < lim && -lim < c3 && c3 < lim && -lim < utc && utc < lim)
	t1n := t0n + theta + d + c1
	t3n := t2n - theta + d + c3
	v.Assume(0 <= t1n && 0 <= t3n)
	t0, t1, t2, t3 := v.TimeNs(t0n), v.TimeNs(t1n), v.TimeNs(t2n), v.TimeNs(t3n)
	off := ClockOffset(t0, t1, t2, t3, time.Duration(c1), time.Duration(c3))
	mpd := MeanPathDelay(t0, t1, t2, t3, time.Duration(c1), time.Duration(c3))
	v.Assert(int64(off) == theta, "C18.formulas.offset-exact")
	v.Assert(int64(mpd) == d, "C18.formulas.meanpathdelay-exact")
	c2s := C2SDelay(t0, t1, time.Duration(c1), time.Duration(utc))
	s2c := S2CDelay(t2, t3, time.Duration(c3), time.Duration(utc))
	v.Assert(int64(c2s) == theta+d-utc, "C18.formulas.c2s")
	v.Assert(int64(s2c) == d-theta+utc, "C18.formulas.s2c")
	v.Assert(int64(c2s)+int64(s2c) == 2*d, "C18.formulas.sum-is-rtt")
	v.Reach("C18.formulas")
}
