//go:build verif

package nts

import (
	"time"

	"example.com/scion-time/net/ntske"
	v "example.com/scion-time/zzverif"
)

// a cookie as this project's servers issue it: produced by the real server-side code
func c11cookie(serverKey []byte, keyID int, c2s, s2c []byte) []byte {
	sc := ntske.ServerCookie{Algo: ntske.AES_SIV_CMAC_256, C2S: c2s, S2C: s2c}
	ec, err := sc.EncryptWithNonce(serverKey, keyID)
	v.Assert(err == nil, "C11.cookie.server-can-issue")
	return ec.Encode()
}

// one request at pool level L (1..8): exactly one cookie field = the first pooled cookie, 8-L fields typed
// as placeholders of the same length, fits the maximum packet size, and the pool shrinks by one
func c11Request(level int) {
	serverKey := v.Bytes("serverkey", 32)
	c2s, s2c := v.Bytes("c2s", 32), v.Bytes("s2c", 32)
	var f ntske.Fetcher
	var data ntske.Data
	data.C2sKey, data.S2cKey, data.Algo = c2s, s2c, ntske.AES_SIV_CMAC_256
	for i := 0; i < level; i++ {
		data.Cookie = append(data.Cookie, c11cookie(serverKey, 1, c2s, s2c))
	}
	_ = f
	first := data.Cookie[0]
	pkt, uid := NewRequestPacket(data)
	v.Assert(len(uid) == 32, "C11.request.unique-id-32-bytes")
	v.Assert(len(pkt.Cookies) == 1 && &pkt.Cookies[0].Cookie[0] == &first[0], "C11.request.exactly-one-cookie-the-first-of-the-pool")
	v.Assert(len(pkt.CookiePlaceholders) == numStoredCookies-level, "C11.request.one-placeholder-per-missing-cookie")
	buf := make([]byte, 48)
	want := 48 + 36 + (1+numStoredCookies-level)*(4+len(first)) + 40
	v.Assert(want <= MaxPacketLen, "C11.request.fits-max-packet-size")
	if want <= MaxPacketLen {
		EncodePacket(&buf, &pkt)
		v.Assert(len(buf) == want, "C11.request.encoded-length")
		var got Packet
		err := DecodePacket(&got, buf)
		v.Assert(err == nil, "C11.request.decodes")
		if err == nil {
			v.Assert(len(got.Cookies) == 1, "C11.request.wire-has-exactly-one-cookie-field")
			v.Assert(len(got.CookiePlaceholders) == numStoredCookies-level, "C11.request.wire-placeholders-typed-as-placeholders")
		}
	}
	v.Reach("C11.request")
}

func VerifC11Request1() { c11Request(1) }
func VerifC11Request2() { c11Request(2) }
func VerifC11Request3() { c11Request(3) }
func VerifC11Request5() { c11Request(5) }
func VerifC11Request8() { c11Request(8) }

// the pool: FetchData pops the first cookie (never handed out twice), StoreCookie appends; a successful
// exchange that returns k cookies for 1 cookie + (8-L) placeholders brings the pool from L-1 to L-1+k
func c11Pool(level int) {
	var f ntske.Fetcher
	var cookies [][]byte
	for i := 0; i < level; i++ {
		c := v.Bytes("cookie", 8)
		cookies = append(cookies, c)
	}
	ntske.VerifSetFetcherData(&f, cookies)
	ctx := c11ctx{}
	d, err := f.FetchData(ctx)
	v.Assert(err == nil, "C11.pool.cached-data-needs-no-key-exchange")
	v.Assert(len(d.Cookie) == level && &d.Cookie[0][0] == &cookies[0][0], "C11.pool.hands-out-the-first-cookie")
	rest := ntske.VerifFetcherCookies(&f)
	v.Assert(len(rest) == level-1, "C11.pool.shrinks-by-one-per-request")
	for i := range rest {
		v.Assert(&rest[i][0] != &cookies[0][0], "C11.pool.sent-cookie-never-reused")
	}
	// the reply to a request with 1 cookie and 8-level placeholders carries 9-level cookies
	k := 1 + numStoredCookies - level
	for i := 0; i < k; i++ {
		f.StoreCookie(v.Bytes("newcookie", 8))
	}
	after := ntske.VerifFetcherCookies(&f)
	v.Assert(len(after) == numStoredCookies, "C11.pool.loss-free-exchange-restores-eight")
	v.Assert(len(after) >= level-1 && len(after) <= numStoredCookies, "C11.pool.never-shrinks-never-exceeds-eight")
	v.Reach("C11.pool")
}

type c11ctx struct{}

func (c11ctx) Deadline() (deadline time.Time, ok bool) { return time.Time{}, false }
func (c11ctx) Done() <-chan struct{}                   { return nil }
func (c11ctx) Err() error                              { return nil }
func (c11ctx) Value(key any) any                       { return nil }

func VerifC11Pool1() { c11Pool(1) }
func VerifC11Pool4() { c11Pool(4) }
func VerifC11Pool8() { c11Pool(8) }

// the server's answer: one fresh cookie per cookie or placeholder requested, sealed under S2C, within the
// maximum packet size, and the requester can authenticate it and finds the cookies
func c11Reply(nreq int) {
	serverKey := v.Bytes("serverkey", 32)
	c2s, s2c := v.Bytes("c2s", 32), v.Bytes("s2c", 32)
	uid := v.Bytes("uid", 32)
	var cookies [][]byte
	for i := 0; i < nreq; i++ {
		cookies = append(cookies, c11cookie(serverKey, 1, c2s, s2c))
	}
	resp := NewResponsePacket(cookies, s2c, uid)
	buf := make([]byte, 48)
	want := 48 + 36 + 4 + 4 + 16 + nreq*(4+len(cookies[0])) + 16
	v.Assert(want <= MaxPacketLen, "C11.reply.fits-max-packet-size")
	if want <= MaxPacketLen {
		EncodePacket(&buf, &resp)
		v.Assert(len(buf) == want, "C11.reply.encoded-length")
		var f ntske.Fetcher
		var got Packet
		err := DecodePacket(&got, buf)
		v.Assert(err == nil, "C11.reply.decodes")
		if err == nil {
			v.Assert(ProcessResponse(buf, s2c, &f, &got, uid) == nil, "C11.reply.requester-can-authenticate")
			v.Assert(len(ntske.VerifFetcherCookies(&f)) == nreq, "C11.reply.one-fresh-cookie-per-requested")
		}
	}
	v.Reach("C11.reply")
}

func VerifC11Reply1() { c11Reply(1) }
func VerifC11Reply2() { c11Reply(2) }
func VerifC11Reply7() { c11Reply(7) }
func VerifC11Reply8() { c11Reply(8) }
