//go:build verif

package nts

import (
	"bytes"

	"example.com/scion-time/net/ntske"
	v "example.com/scion-time/zzverif"
)

func c10eq(a, b []byte) bool { return bytes.Equal(a, b) }

// C14 (NTS fields): every field decodes as the kind it was encoded as; the packet is 4-byte aligned
func c14Fields(nPlaceholders, cookieLen int) {
	key := v.Bytes("key", 32)
	uid := v.Bytes("uid", 32)
	cookie := v.Bytes("cookie", cookieLen)
	var pkt Packet
	pkt.UniqueID.ID = uid
	pkt.Cookies = append(pkt.Cookies, Cookie{Cookie: cookie})
	ph := make([]byte, cookieLen)
	for i := 0; i < nPlaceholders; i++ {
		pkt.CookiePlaceholders = append(pkt.CookiePlaceholders, CookiePlaceholder{Cookie: ph})
	}
	pkt.Auth.Key = key
	buf := make([]byte, 48)
	EncodePacket(&buf, &pkt)
	v.Assert(len(buf)%4 == 0, "C14.nts.packet-4-byte-aligned")
	v.Assert(len(buf) == 48+36+(1+nPlaceholders)*(4+cookieLen)+40, "C14.nts.encoded-length")
	var got Packet
	err := DecodePacket(&got, buf)
	v.Assert(err == nil, "C14.nts.own-packet-decodes")
	if err == nil {
		v.Assert(c10eq(got.UniqueID.ID, uid), "C14.nts.unique-id-roundtrip")
		v.Assert(len(got.Cookies) == 1, "C14.nts.cookie-decodes-as-cookie")
		if len(got.Cookies) >= 1 {
			v.Assert(c10eq(got.Cookies[0].Cookie, cookie), "C14.nts.cookie-roundtrip")
		}
		v.Assert(len(got.CookiePlaceholders) == nPlaceholders, "C14.nts.placeholder-decodes-as-placeholder")
		v.Assert(len(got.Auth.Nonce) == 16 && len(got.Auth.CipherText) == 16, "C14.nts.authenticator-decodes-as-authenticator")
		v.Assert(got.Auth.pos == len(buf)-40, "C14.nts.authenticator-position")
	}
	v.Reach("C14.ntsfields")
}

// a cookie whose length is not a multiple of four is padded: the fields still decode as the kinds encoded,
// every field stays 4-byte aligned, and the cookie comes back with (only) zero padding appended
func c14FieldsPadded(nPlaceholders, cookieLen int) {
	key := v.Bytes("key", 32)
	uid := v.Bytes("uid", 32)
	cookie := v.Bytes("cookie", cookieLen)
	padded := (cookieLen + 3) &^ 3
	var pkt Packet
	pkt.UniqueID.ID = uid
	pkt.Cookies = append(pkt.Cookies, Cookie{Cookie: cookie})
	ph := make([]byte, cookieLen)
	for i := 0; i < nPlaceholders; i++ {
		pkt.CookiePlaceholders = append(pkt.CookiePlaceholders, CookiePlaceholder{Cookie: ph})
	}
	pkt.Auth.Key = key
	buf := make([]byte, 48)
	EncodePacket(&buf, &pkt)
	v.Assert(len(buf)%4 == 0, "C14.nts.padded.packet-4-byte-aligned")
	v.Assert(len(buf) == 48+36+(1+nPlaceholders)*(4+padded)+40, "C14.nts.padded.encoded-length")
	// every extension field starts at a multiple of four and announces a multiple of four
	pos, nfields := 48, 0
	for i := 0; i < 3+nPlaceholders; i++ {
		if pos+4 <= len(buf) {
			l := int(buf[pos+2])<<8 | int(buf[pos+3])
			v.Assert(l%4 == 0 && l >= 4, "C14.nts.padded.every-field-length-multiple-of-four")
			pos += l
			nfields++
		}
	}
	v.Assert(pos == len(buf) && nfields == 3+nPlaceholders, "C14.nts.padded.fields-tile-the-packet")
	var got Packet
	err := DecodePacket(&got, buf)
	v.Assert(err == nil, "C14.nts.padded.own-packet-decodes")
	if err == nil {
		v.Assert(c10eq(got.UniqueID.ID, uid), "C14.nts.padded.unique-id-roundtrip")
		v.Assert(len(got.Cookies) == 1 && len(got.CookiePlaceholders) == nPlaceholders, "C14.nts.padded.fields-decode-as-the-kinds-encoded")
		if len(got.Cookies) == 1 {
			c := got.Cookies[0].Cookie
			v.Assert(len(c) == padded, "C14.nts.padded.cookie-length-padded-to-a-multiple-of-four")
			if len(c) == padded {
				v.Assert(c10eq(c[:cookieLen], cookie), "C14.nts.padded.cookie-bytes-roundtrip")
				for i := cookieLen; i < padded; i++ {
					v.Assert(c[i] == 0, "C14.nts.padded.padding-is-zero")
				}
			}
		}
		v.Assert(len(got.Auth.Nonce) == 16 && len(got.Auth.CipherText) == 16 && got.Auth.pos == len(buf)-40, "C14.nts.padded.authenticator-decodes-as-authenticator")
		v.Assert(ProcessRequest(buf, key, &got) == nil, "C14.nts.padded.own-packet-authenticates")
	}
	v.Reach("C14.ntsfieldspadded")
}

func VerifC14NTSFieldsPadded5() { c14FieldsPadded(1, 5) }
func VerifC14NTSFieldsPadded7() { c14FieldsPadded(2, 7) }
func VerifC14NTSFields0()       { c14Fields(0, 8) }
func VerifC14NTSFields2()       { c14Fields(2, 8) }
func VerifC14NTSFields7()       { c14Fields(7, 16) }

// C10 completeness: what the project's encoder produces is accepted under the same key
// C10 soundness (layout-preserving adversary): a packet with the same extension layout but arbitrary
// other bytes, under an arbitrary key, is accepted only if key, every byte before the authenticator,
// the nonce and the ciphertext are those of the sealed packet
func c10Request(cookieLen int) {
	key := v.Bytes("key", 32)
	uid := v.Bytes("uid", 32)
	cookie := v.Bytes("cookie", cookieLen)
	var pkt Packet
	pkt.UniqueID.ID = uid
	pkt.Cookies = append(pkt.Cookies, Cookie{Cookie: cookie})
	pkt.Auth.Key = key
	buf := make([]byte, 48)
	hdr := v.Bytes("ntphdr", 48)
	copy(buf, hdr)
	EncodePacket(&buf, &pkt)
	n := len(buf)
	authpos := n - 40

	var got Packet
	v.Assert(DecodePacket(&got, buf) == nil && ProcessRequest(buf, key, &got) == nil, "C10.complete.own-request-accepted")

	// the adversary's packet: same length and same field layout, everything else arbitrary
	adv := v.Bytes("adv", n)
	layout := []int{48, 49, 50, 51, 84, 85, 86, 87, authpos, authpos + 1, authpos + 2, authpos + 3, authpos + 4, authpos + 5, authpos + 6, authpos + 7}
	for _, i := range layout {
		v.Assume(adv[i] == buf[i])
	}
	key2 := v.Bytes("key2", 32)
	var p2 Packet
	if DecodePacket(&p2, adv) == nil && ProcessRequest(adv, key2, &p2) == nil {
		v.Assert(c10eq(key2, key), "C10.sound.only-under-the-sealing-key")
		v.Assert(c10eq(adv[:authpos], buf[:authpos]), "C10.sound.every-byte-before-the-authenticator-untampered")
		v.Assert(c10eq(adv[authpos+8:authpos+24], buf[authpos+8:authpos+24]), "C10.sound.nonce-untampered")
		v.Assert(c10eq(adv[authpos+24:], buf[authpos+24:]), "C10.sound.ciphertext-untampered")
	}
	v.Reach("C10.request")
}

func VerifC10Request8() { c10Request(8) }

// client side: a response is accepted only with the request's unique identifier and under the S2C key
func c10Response() {
	s2c := v.Bytes("s2c", 32)
	uid := v.Bytes("uid", 32)
	newCookie := v.Bytes("cookie", 8)
	resp := NewResponsePacket([][]byte{newCookie}, s2c, uid)
	buf := make([]byte, 48)
	copy(buf, v.Bytes("ntphdr", 48))
	EncodePacket(&buf, &resp)
	n := len(buf)
	authpos := 48 + 36
	var f ntske.Fetcher
	var got Packet
	ok := DecodePacket(&got, buf) == nil && ProcessResponse(buf, s2c, &f, &got, uid) == nil
	v.Assert(ok, "C10.complete.own-response-accepted")

	adv := v.Bytes("adv", n)
	for _, i := range []int{48, 49, 50, 51, authpos, authpos + 1, authpos + 2, authpos + 3, authpos + 4, authpos + 5, authpos + 6, authpos + 7} {
		v.Assume(adv[i] == buf[i])
	}
	key2 := v.Bytes("key2", 32)
	reqID := v.Bytes("reqid", 32)
	var g ntske.Fetcher
	var p2 Packet
	if DecodePacket(&p2, adv) == nil && ProcessResponse(adv, key2, &g, &p2, reqID) == nil {
		v.Assert(c10eq(key2, s2c), "C10.sound.response-only-under-the-s2c-key")
		v.Assert(c10eq(reqID, uid), "C10.sound.response-carries-the-request-id")
		v.Assert(c10eq(adv[:authpos], buf[:authpos]), "C10.sound.response-bytes-before-authenticator-untampered")
		v.Assert(c10eq(adv[authpos+8:], buf[authpos+8:]), "C10.sound.response-nonce-and-ciphertext-untampered")
	}
	v.Reach("C10.response")
}

func VerifC10Response() { c10Response() }

// bytes appended after the authenticator are not authenticated: they must not influence what is
// accepted (in particular not the unique identifier the response is matched with)
func VerifC10ResponseTrailing() {
	s2c := v.Bytes("s2c", 32)
	uid := v.Bytes("uid", 32)
	resp := NewResponsePacket([][]byte{v.Bytes("cookie", 8)}, s2c, uid)
	buf := make([]byte, 48)
	copy(buf, v.Bytes("ntphdr", 48))
	EncodePacket(&buf, &resp)
	tail := v.Bytes("tail", 36)
	adv := make([]byte, 0, len(buf)+36)
	adv = append(adv, buf...)
	adv = append(adv, tail...)
	reqID := v.Bytes("reqid", 32)
	var f ntske.Fetcher
	var p2 Packet
	if DecodePacket(&p2, adv) == nil && ProcessResponse(adv, s2c, &f, &p2, reqID) == nil {
		v.Assert(c10eq(reqID, uid), "C10.sound.unauthenticated-trailing-fields-do-not-change-the-id")
	}
	v.Reach("C10.responsetrailing")
}

func VerifC10RequestTrailing() {
	key := v.Bytes("key", 32)
	uid := v.Bytes("uid", 32)
	cookie := v.Bytes("cookie", 8)
	var pkt Packet
	pkt.UniqueID.ID = uid
	pkt.Cookies = append(pkt.Cookies, Cookie{Cookie: cookie})
	pkt.Auth.Key = key
	buf := make([]byte, 48)
	EncodePacket(&buf, &pkt)
	tail := v.Bytes("tail", 36)
	adv := make([]byte, 0, len(buf)+36)
	adv = append(adv, buf...)
	adv = append(adv, tail...)
	var p2 Packet
	if DecodePacket(&p2, adv) == nil && ProcessRequest(adv, key, &p2) == nil {
		v.Assert(c10eq(p2.UniqueID.ID, uid), "C10.sound.request-id-is-the-authenticated-one")
		v.Assert(len(p2.Cookies) == 1 && c10eq(p2.Cookies[0].Cookie, cookie), "C10.sound.request-cookies-are-the-authenticated-ones")
	}
	v.Reach("C10.requesttrailing")
}

// one byte of an extension-field header (type, length, nonce length, ciphertext length) of a genuine request is
// replaced by any other value: if the packet is still accepted, what was verified is the sealed nonce and
// ciphertext over the untouched bytes before the authenticator (length fields that lie are not a way around
// the authenticator)
func c10TamperRequestHeader(positions []int, cookieLen int) {
	key := v.Bytes("key", 32)
	uid := v.Bytes("uid", 32)
	cookie := v.Bytes("cookie", cookieLen)
	var pkt Packet
	pkt.UniqueID.ID = uid
	pkt.Cookies = append(pkt.Cookies, Cookie{Cookie: cookie})
	pkt.Auth.Key = key
	buf := make([]byte, 48)
	copy(buf, v.Bytes("ntphdr", 48))
	EncodePacket(&buf, &pkt)
	n := len(buf)
	authpos := n - 40
	for _, rel := range positions {
		i := rel
		if rel < 0 {
			i = authpos - rel - 1 // -1..-8: the eight header bytes of the authenticator field
		}
		adv := make([]byte, n)
		copy(adv, buf)
		b := v.Byte("tampered")
		v.Assume(b != buf[i] && b <= c10maxTamper)
		adv[i] = b
		var p2 Packet
		if DecodePacket(&p2, adv) == nil && ProcessRequest(adv, key, &p2) == nil {
			v.Assert(p2.Auth.pos == authpos, "C10.tamper.accepted-only-with-the-authenticator-where-it-was")
			v.Assert(c10eq(p2.Auth.Nonce, buf[authpos+8:authpos+24]) && c10eq(p2.Auth.CipherText, buf[authpos+24:]), "C10.tamper.accepted-only-with-the-sealed-nonce-and-ciphertext")
		}
	}
	v.Reach("C10.tamperrequest")
}

// the replaced byte is a type byte or the low byte of a length field, with values up to c10maxTamper (announced
// lengths far beyond the packet only make the copies longer; stated bound)
const c10maxTamper = 48

func VerifC10TamperAuthHeader() { c10TamperRequestHeader([]int{-1, -2, -4, -6, -8}, 8) }

// the same for a response: a lying length field in the authenticator header does not get a response accepted
// without the sealed nonce and ciphertext
func VerifC10TamperResponseAuthHeader() {
	s2c := v.Bytes("s2c", 32)
	uid := v.Bytes("uid", 32)
	resp := NewResponsePacket([][]byte{v.Bytes("cookie", 8)}, s2c, uid)
	buf := make([]byte, 48)
	copy(buf, v.Bytes("ntphdr", 48))
	EncodePacket(&buf, &resp)
	n := len(buf)
	authpos := 48 + 36
	for _, k := range []int{0, 1, 3, 5, 7} {
		i := authpos + k
		adv := make([]byte, n)
		copy(adv, buf)
		b := v.Byte("tampered")
		v.Assume(b != buf[i] && b <= c10maxTamper)
		adv[i] = b
		var g ntske.Fetcher
		var p2 Packet
		if DecodePacket(&p2, adv) == nil && ProcessResponse(adv, s2c, &g, &p2, uid) == nil {
			v.Assert(p2.Auth.pos == authpos, "C10.tamper.response-accepted-only-with-the-authenticator-where-it-was")
			v.Assert(c10eq(p2.Auth.Nonce, buf[authpos+8:authpos+24]) && c10eq(p2.Auth.CipherText, buf[authpos+24:]), "C10.tamper.response-accepted-only-with-the-sealed-nonce-and-ciphertext")
		}
	}
	v.Reach("C10.tamperresponse")
}

// an authentic response (sealed under the session's S2C key by the real server-side code) that answers a
// different request - its unique identifier is any other byte string, in particular a longer one that merely
// starts with the outstanding request's identifier - is not accepted
func c10ResponseOtherID(idLen int) {
	s2c := v.Bytes("s2c", 32)
	reqID := v.Bytes("reqid", 32)
	otherID := v.Bytes("otherid", idLen)
	resp := NewResponsePacket([][]byte{v.Bytes("cookie", 8)}, s2c, otherID)
	buf := make([]byte, 48)
	copy(buf, v.Bytes("ntphdr", 48))
	EncodePacket(&buf, &resp)
	var f ntske.Fetcher
	var got Packet
	if DecodePacket(&got, buf) == nil && ProcessResponse(buf, s2c, &f, &got, reqID) == nil {
		v.Assert(idLen == 32 && c10eq(otherID, reqID), "C10.sound.response-to-another-request-not-accepted")
	}
	v.Reach("C10.responseotherid")
}

func VerifC10ResponseOtherID32() { c10ResponseOtherID(32) }
func VerifC10ResponseOtherID36() { c10ResponseOtherID(36) }

// the same with the appended bytes forming one well-formed 36-byte extension field of any type except the
// authenticator's, with arbitrary content (concrete lengths keep the walk over the fields concrete): neither
// the identifier nor the cookies of an accepted request, nor the identifier a response is matched with, can
// come from it
func c10tailField() []byte {
	tail := v.Bytes("tail", 36)
	t := v.Uint16("tail.type")
	v.Assume(t != extAuthenticator)
	tail[0], tail[1], tail[2], tail[3] = byte(t>>8), byte(t), 0, 36
	return tail
}

func VerifC10RequestTrailingField() {
	key := v.Bytes("key", 32)
	uid := v.Bytes("uid", 32)
	cookie := v.Bytes("cookie", 8)
	var pkt Packet
	pkt.UniqueID.ID = uid
	pkt.Cookies = append(pkt.Cookies, Cookie{Cookie: cookie})
	pkt.Auth.Key = key
	buf := make([]byte, 48)
	EncodePacket(&buf, &pkt)
	adv := make([]byte, 0, len(buf)+36)
	adv = append(adv, buf...)
	adv = append(adv, c10tailField()...)
	var p2 Packet
	if DecodePacket(&p2, adv) == nil && ProcessRequest(adv, key, &p2) == nil {
		v.Assert(c10eq(p2.UniqueID.ID, uid), "C10.sound.trailing-field.request-id-is-the-authenticated-one")
		v.Assert(len(p2.Cookies) == 1 && c10eq(p2.Cookies[0].Cookie, cookie), "C10.sound.trailing-field.request-cookies-are-the-authenticated-ones")
	}
	v.Reach("C10.requesttrailingfield")
}

func VerifC10ResponseTrailingField() {
	s2c := v.Bytes("s2c", 32)
	uid := v.Bytes("uid", 32)
	resp := NewResponsePacket([][]byte{v.Bytes("cookie", 8)}, s2c, uid)
	buf := make([]byte, 48)
	copy(buf, v.Bytes("ntphdr", 48))
	EncodePacket(&buf, &resp)
	adv := make([]byte, 0, len(buf)+36)
	adv = append(adv, buf...)
	adv = append(adv, c10tailField()...)
	reqID := v.Bytes("reqid", 32)
	var f ntske.Fetcher
	var p2 Packet
	if DecodePacket(&p2, adv) == nil && ProcessResponse(adv, s2c, &f, &p2, reqID) == nil {
		v.Assert(c10eq(reqID, uid), "C10.sound.trailing-field.does-not-change-the-id")
	}
	v.Reach("C10.responsetrailingfield")
}
