//go:build verif

package nts

import (
	v "example.com/scion-time/zzverif"
)

func c08packet(maxExt int) []byte {
	b := v.Bytes("pkt", 48+maxExt)
	n := v.Int("n")
	v.Assume(48 <= n && n <= 48+maxExt)
	return b[:n]
}

// every datagram of 48..48+N bytes is decoded or rejected: no panic, and the extension walk terminates
func c08Decode(maxExt int) {
	b := c08packet(maxExt)
	var pkt Packet
	err := DecodePacket(&pkt, b)
	_ = err
	v.Reach("C08.ntsdecode")
}

func VerifC08NTSDecode32() { c08Decode(32) }
func VerifC08NTSDecode64() { c08Decode(64) }

// a decoded request is authenticated (or refused) without panicking, whatever nonce and ciphertext
// lengths its authenticator field carries
func c08Process(maxExt int) {
	b := c08packet(maxExt)
	key := v.Bytes("key", 32)
	var pkt Packet
	if DecodePacket(&pkt, b) == nil {
		err := ProcessRequest(b, key, &pkt)
		_ = err
	}
	v.Reach("C08.ntsprocess")
}

func VerifC08NTSProcess40() { c08Process(40) }

// a peer that holds the session key chooses the encrypted extension fields freely: the walk over the
// decrypted fields must terminate and not panic for every plaintext (of the given length)
func c08AuthWalk(n int) {
	key := v.Bytes("key", 32)
	pt := v.Bytes("plaintext", n)
	var pkt Packet
	pkt.UniqueID.ID = v.Bytes("uid", 32)
	pkt.Auth.Key = key
	pkt.Auth.PlainText = pt
	buf := make([]byte, 48)
	EncodePacket(&buf, &pkt)
	var got Packet
	err := DecodePacket(&got, buf)
	v.Assert(err == nil, "C08.authwalk.own-packet-decodes")
	if err == nil {
		err = ProcessRequest(buf, key, &got)
		_ = err
	}
	v.Reach("C08.authwalk")
}

func VerifC08AuthWalk28() { c08AuthWalk(28) }
func VerifC08AuthWalk36() { c08AuthWalk(36) }
func VerifC08AuthWalk60() { c08AuthWalk(60) }

// the listener's reply to an authenticated request that asks for n cookies (cookie plus placeholder
// fields: the number is the requester's choice, a network input): building the reply with n fresh
// 124-byte cookies must not panic, also when it does not fit MaxPacketLen (n = 8: 1148 bytes)
func c08ReplyEncode(n int) {
	names := [...]string{"cookie0", "cookie1", "cookie2", "cookie3", "cookie4", "cookie5", "cookie6", "cookie7", "cookie8"}
	s2c := v.Bytes("s2c", 32)
	uid := v.Bytes("uid", 32)
	var cookies [][]byte
	for i := 0; i < n; i++ {
		cookies = append(cookies, v.Bytes(names[i], 124))
	}
	resp := NewResponsePacket(cookies, s2c, uid)
	buf := make([]byte, 48)
	EncodePacket(&buf, &resp)
	v.Assert(len(buf) <= MaxPacketLen, "C08.reply.encoded-reply-within-buffer")
	v.Reach("C08.replyencode")
}

func VerifC08ReplyEncode7() { c08ReplyEncode(7) }
func VerifC08ReplyEncode8() { c08ReplyEncode(8) }
func VerifC08ReplyEncode9() { c08ReplyEncode(9) }
