//go:build verif

package ntske

// accessors for the harnesses of other packages (verif builds only)
func VerifSetFetcherData(f *Fetcher, cookies [][]byte) {
	f.data.Cookie = cookies
	f.data.Algo = AES_SIV_CMAC_256
}

func VerifFetcherCookies(f *Fetcher) [][]byte { return f.data.Cookie }
