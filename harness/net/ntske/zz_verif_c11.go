//go:build verif

package ntske

import "time"

// accessors for the harnesses of other packages (verif builds only)
func VerifSetFetcherData(f *Fetcher, cookies [][]byte) {
	f.data.Cookie = cookies
	f.data.Algo = AES_SIV_CMAC_256
}

func VerifFetcherCookies(f *Fetcher) [][]byte { return f.data.Cookie }

// VerifProviderAge makes a provider that holds only its current key look d older (generation time and the
// key's validity window move back by d): the state a provider is in d after it generated that key.
func VerifProviderAge(p *Provider, d time.Duration) {
	p.mu.Lock()
	defer p.mu.Unlock()
	p.generatedAt = p.generatedAt.Add(-d)
	k := p.keys[p.currentID]
	k.Validity.NotBefore = k.Validity.NotBefore.Add(-d)
	k.Validity.NotAfter = k.Validity.NotAfter.Add(-d)
	p.keys[p.currentID] = k
}
