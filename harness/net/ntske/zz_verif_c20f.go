//go:build verif

package ntske

import (
	"bytes"
	"context"
	"crypto/ecdsa"
	"crypto/elliptic"
	"crypto/rand"
	"crypto/tls"
	"crypto/x509"
	"crypto/x509/pkix"
	"errors"
	"log/slog"
	"math/big"
	"net"
	"strconv"
	"time"

	v "example.com/scion-time/zzverif"
)

// one scripted NTS-KE peer per connection attempt
type c20peer struct {
	dialFails   bool
	alpnOK      bool
	alpnNone    bool
	writeFails  bool
	exportFails bool
	stream      []byte
	chunks      []byte
	spec        c20spec
}

var c20 struct {
	peers    [2]c20peer
	ndials   int
	cur      *c20reader // the stream of the connection being read (symbolic run)
	exports  int
	exLabel  [4]string
	exCtx    [4][]byte
	exKey    [4][]byte
	listener net.Listener
}

var errC20 = errors.New("c20: io error")

// redirect targets for the symbolic run (props/c20.py)
func c20Dial(d *net.Dialer, network, addr string, config *tls.Config) (*tls.Conn, error) {
	i := c20.ndials
	c20.ndials++
	if i >= len(c20.peers) || c20.peers[i].dialFails {
		return nil, errC20
	}
	c20.cur = &c20reader{data: c20.peers[i].stream, chunks: c20.peers[i].chunks}
	return &tls.Conn{}, nil
}
func c20RemoteAddrString() string { return "127.0.0.1:4460" }
func c20State(c *tls.Conn) tls.ConnectionState {
	var cs tls.ConnectionState
	p := &c20.peers[c20.ndials-1]
	if p.alpnOK {
		cs.NegotiatedProtocol = "ntske/1"
	} else if p.alpnNone {
		// a peer without any ALPN configuration: the handshake completes with no protocol negotiated
		cs.NegotiatedProtocol = ""
	} else {
		cs.NegotiatedProtocol = "h2"
	}
	return cs
}
func c20Write(c *tls.Conn, b []byte) (int, error) {
	if c20.peers[c20.ndials-1].writeFails {
		return 0, errC20
	}
	return len(b), nil
}
func c20Close(c *tls.Conn) error { return nil }
func c20Export(cs *tls.ConnectionState, label string, ctx []byte, length int) ([]byte, error) {
	i := c20.exports
	c20.exports++
	if c20.peers[c20.ndials-1].exportFails {
		return nil, errC20
	}
	k := v.Bytes("exported", 32)
	if i < len(c20.exKey) {
		c20.exLabel[i], c20.exCtx[i], c20.exKey[i] = label, append([]byte(nil), ctx...), k
	}
	return k[:length], nil
}

func c20newPeer(maxLen, maxRec int) c20peer {
	var p c20peer
	p.dialFails, p.alpnOK, p.writeFails, p.exportFails = v.Bool("peer.dialfails"), v.Bool("peer.alpnok"), v.Bool("peer.writefails"), v.Bool("peer.exportfails")
	p.alpnNone = v.Bool("peer.alpnnone")
	raw := v.Bytes("peer.stream", maxLen)
	n := v.Int("peer.n")
	v.Assume(0 <= n && n <= maxLen)
	p.stream = raw[:n]
	p.chunks = v.Bytes("peer.chunks", maxLen)
	p.spec = c20parse(p.stream, maxRec)
	return p
}

func c20expectOK(p *c20peer) bool {
	return !p.dialFails && p.alpnOK && !p.writeFails && !p.exportFails && p.spec.ok && p.spec.algo == AES_SIV_CMAC_256 && len(p.spec.cookies) >= 1
}

// two consecutive key exchanges of one client against arbitrary peers
func c20Fetch(maxLen, maxRec int) {
	c20.ndials, c20.exports = 0, 0
	c20.peers[0] = c20newPeer(maxLen, maxRec)
	c20.peers[1] = c20newPeer(maxLen, maxRec)
	f := &Fetcher{Log: slog.New(slog.DiscardHandler), Port: "4460"}
	f.TLSConfig.ServerName = "127.0.0.1"
	f.TLSConfig.InsecureSkipVerify = true
	if v.Native() {
		c20ServeNative(f)
		defer c20.listener.Close()
	}
	ctx := context.Background()
	d1, err1 := f.FetchData(ctx)
	p1 := &c20.peers[0]
	if v.Native() {
		println("native: first exchange error:", c20errstr(err1))
	}
	v.Assert(c20.ndials == 1 || v.Native(), "C20.fetch.first-request-performs-an-exchange")
	if err1 == nil {
		v.Assert(c20expectOK(p1), "C20.fetch.success-only-for-ntske1-aes-siv-cookies-and-a-properly-terminated-stream")
		v.Assert(len(d1.Cookie) == len(p1.spec.cookies), "C20.fetch.cookie-pool-is-exactly-the-cookies-issued")
		for i := range p1.spec.cookies {
			if i < len(d1.Cookie) {
				v.Assert(bytes.Equal(d1.Cookie[i], p1.spec.cookies[i]), "C20.fetch.cookies-in-order")
			}
		}
		v.Assert(d1.Algo == AES_SIV_CMAC_256 && len(d1.C2sKey) == 32 && len(d1.S2cKey) == 32, "C20.fetch.keys-and-algorithm")
		if !v.Native() {
			v.Assert(c20.exports == 2 && c20.exLabel[0] == "EXPORTER-network-time-security" && c20.exLabel[1] == "EXPORTER-network-time-security", "C20.fetch.rfc8915-exporter-label")
			v.Assert(bytes.Equal(c20.exCtx[0], []byte{0, 0, 0, 0x0f, 0x01}) && bytes.Equal(d1.S2cKey, c20.exKey[0]), "C20.fetch.s2c-key-is-the-s2c-exporter-value")
			v.Assert(bytes.Equal(c20.exCtx[1], []byte{0, 0, 0, 0x0f, 0x00}) && bytes.Equal(d1.C2sKey, c20.exKey[1]), "C20.fetch.c2s-key-is-the-c2s-exporter-value")
		}
		if p1.spec.hasPort {
			v.Assert(d1.Port == p1.spec.port, "C20.fetch.port-from-the-exchange")
		} else {
			v.Assert(d1.Port == 123, "C20.fetch.default-port-is-the-standard-ntp-port")
		}
		if !p1.spec.hasSrv {
			v.Assert(d1.Server == "127.0.0.1", "C20.fetch.default-server-is-the-key-exchange-host")
		}
	} else {
		v.Assert(!c20expectOK(p1), "C20.fetch.a-conformant-exchange-succeeds")
	}
	// drain what is left of the first exchange's pool so that the next request needs a new exchange
	for i := 0; i < 8; i++ {
		if len(f.data.Cookie) > 0 && err1 == nil {
			f.data.Cookie = f.data.Cookie[1:]
		}
	}
	dials := c20.ndials
	d2, err2 := f.FetchData(ctx)
	p2 := &c20.peers[1]
	if v.Native() {
		println("native: second exchange error:", c20errstr(err2))
	}
	if err1 != nil {
		// a failed exchange leaves nothing behind: the next request performs a complete new exchange
		if !v.Native() {
			v.Assert(c20.ndials == dials+1, "C20.failure.next-request-performs-a-new-exchange")
		}
		if err2 == nil {
			v.Assert(c20expectOK(p2), "C20.failure.nothing-of-the-failed-exchange-is-used")
		}
	}
	if err2 == nil {
		v.Assert(c20expectOK(p2), "C20.fetch.second-exchange-success-only-for-a-conformant-peer")
		v.Assert(len(d2.Cookie) == len(p2.spec.cookies), "C20.fetch.second-pool-is-exactly-the-cookies-issued")
	}
	v.Reach("C20.fetch")
}

func VerifC20Fetch16() { c20Fetch(16, 4) }

// ---- native replay: a real TLS 1.3 server on loopback that plays the scripted peers
func c20ServeNative(f *Fetcher) {
	key, err := ecdsa.GenerateKey(elliptic.P256(), rand.Reader)
	if err != nil {
		panic(err)
	}
	tmpl := &x509.Certificate{SerialNumber: big.NewInt(1), Subject: pkix.Name{CommonName: "127.0.0.1"}, NotBefore: time.Now().Add(-time.Hour), NotAfter: time.Now().Add(time.Hour),
		IPAddresses: []net.IP{{127, 0, 0, 1}}, KeyUsage: x509.KeyUsageDigitalSignature, ExtKeyUsage: []x509.ExtKeyUsage{x509.ExtKeyUsageServerAuth}}
	der, err := x509.CreateCertificate(rand.Reader, tmpl, tmpl, &key.PublicKey, key)
	if err != nil {
		panic(err)
	}
	cert := tls.Certificate{Certificate: [][]byte{der}, PrivateKey: key}
	conn, hello := 0, 0
	cfg := &tls.Config{Certificates: []tls.Certificate{cert}, MinVersion: tls.VersionTLS13}
	cfg.GetConfigForClient = func(*tls.ClientHelloInfo) (*tls.Config, error) {
		c := cfg.Clone()
		c.GetConfigForClient = nil
		i := hello
		hello++
		if i < len(c20.peers) && c20.peers[i].alpnOK {
			c.NextProtos = []string{"ntske/1"}
		} else if i < len(c20.peers) && c20.peers[i].alpnNone {
			c.NextProtos = nil
		} else {
			c.NextProtos = []string{"h2", "ntske/1-not"}
		}
		return c, nil
	}
	l, err := tls.Listen("tcp", "127.0.0.1:0", cfg)
	if err != nil {
		panic(err)
	}
	c20.listener = l
	f.Port = strconv.Itoa(l.Addr().(*net.TCPAddr).Port)
	go func() {
		for {
			c, err := l.Accept()
			if err != nil {
				return
			}
			i := conn
			conn++
			go func(c net.Conn, i int) {
				defer c.Close()
				if i >= len(c20.peers) || c20.peers[i].dialFails {
					return
				}
				tc := c.(*tls.Conn)
				if tc.Handshake() != nil {
					return
				}
				buf := make([]byte, 1024)
				tc.SetReadDeadline(time.Now().Add(200 * time.Millisecond))
				tc.Read(buf)
				p := &c20.peers[i]
				pos := 0
				for pos < len(p.stream) {
					n := 1 + int(p.chunks[pos])%(len(p.stream)-pos)
					tc.Write(p.stream[pos : pos+n])
					pos += n
					time.Sleep(5 * time.Millisecond)
				}
			}(c, i)
		}
	}()
}

func c20errstr(err error) string {
	if err == nil {
		return "<nil>"
	}
	return err.Error()
}
