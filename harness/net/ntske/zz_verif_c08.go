//go:build verif

package ntske

import (
	v "example.com/scion-time/zzverif"
)

// every byte string of length 0..N handed to the cookie decoders is either decoded or rejected with an
// error: no panic (index / slice bounds), and the decoding loop terminates
func c08CookieBytes(maxLen int) []byte {
	b := v.Bytes("cookie", maxLen)
	n := v.Int("n")
	v.Assume(0 <= n && n <= maxLen)
	return b[:n]
}

func c08EncryptedCookieDecode(maxLen int) {
	b := c08CookieBytes(maxLen)
	var c EncryptedServerCookie
	err := c.Decode(b)
	_ = err
	v.Reach("C08.encryptedcookie")
}

func c08ServerCookieDecode(maxLen int) {
	b := c08CookieBytes(maxLen)
	var c ServerCookie
	err := c.Decode(b)
	_ = err
	v.Reach("C08.servercookie")
}

func VerifC08EncryptedCookieDecode16() { c08EncryptedCookieDecode(16) }
func VerifC08ServerCookieDecode16()    { c08ServerCookieDecode(16) }
func VerifC08EncryptedCookieDecode40() { c08EncryptedCookieDecode(40) }
func VerifC08ServerCookieDecode40()    { c08ServerCookieDecode(40) }

// a cookie that decodes is decrypted without panicking, whatever nonce / ciphertext lengths it carries
func VerifC08CookieDecrypt() {
	b := c08CookieBytes(48)
	key := v.Bytes("key", 32)
	var c EncryptedServerCookie
	if c.Decode(b) == nil {
		_, err := c.Decrypt(key)
		_ = err
	}
	v.Reach("C08.cookiedecrypt")
}
