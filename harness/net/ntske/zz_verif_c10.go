//go:build verif

package ntske

import (
	"bytes"

	v "example.com/scion-time/zzverif"
)

// a cookie opens only under the server key that sealed it and yields exactly the sealed algorithm and keys
func VerifC10Cookie() {
	key := v.Bytes("key", 32)
	c := ServerCookie{Algo: v.Uint16("algo"), S2C: v.Bytes("s2c", 32), C2S: v.Bytes("c2s", 32)}
	id := v.Int("keyid")
	v.Assume(0 <= id && id < 65536)
	ec, err := c.EncryptWithNonce(key, id)
	v.Assert(err == nil, "C10.cookie.encrypts")
	wire := ec.Encode()
	var dc EncryptedServerCookie
	v.Assert(dc.Decode(wire) == nil, "C10.cookie.own-cookie-decodes")
	v.Assert(int(dc.ID) == id && bytes.Equal(dc.Nonce, ec.Nonce) && bytes.Equal(dc.Ciphertext, ec.Ciphertext), "C14.cookie.encrypted-cookie-roundtrip")
	key2 := v.Bytes("key2", 32)
	pc, err := dc.Decrypt(key2)
	if err == nil {
		v.Assert(bytes.Equal(key2, key), "C10.cookie.opens-only-under-the-sealing-key")
		v.Assert(pc.Algo == c.Algo && bytes.Equal(pc.S2C, c.S2C) && bytes.Equal(pc.C2S, c.C2S), "C10.cookie.yields-the-sealed-algorithm-and-keys")
	}
	pc2, err := dc.Decrypt(key)
	v.Assert(err == nil && pc2.Algo == c.Algo && bytes.Equal(pc2.S2C, c.S2C) && bytes.Equal(pc2.C2S, c.C2S), "C10.cookie.opens-under-the-sealing-key")
	// plaintext cookie codec
	var pd ServerCookie
	v.Assert(pd.Decode(c.Encode()) == nil && pd.Algo == c.Algo && bytes.Equal(pd.S2C, c.S2C) && bytes.Equal(pd.C2S, c.C2S), "C14.cookie.server-cookie-roundtrip")
	v.Assert(len(wire) == 124, "C11.cookie.size-is-124-bytes")
	v.Reach("C10.cookie")
}

// the plain and the encrypted server-cookie codec with keys of different lengths (nothing in the codec
// ties the two key lengths together)
func c14CookieKeys(ns2c, nc2s int) {
	key := v.Bytes("key", 32)
	c := ServerCookie{Algo: v.Uint16("algo"), S2C: v.Bytes("s2c", ns2c), C2S: v.Bytes("c2s", nc2s)}
	var pd ServerCookie
	v.Assert(pd.Decode(c.Encode()) == nil && pd.Algo == c.Algo && bytes.Equal(pd.S2C, c.S2C) && bytes.Equal(pd.C2S, c.C2S), "C14.cookie.keylens.server-cookie-roundtrip")
	ec, err := c.EncryptWithNonce(key, 1)
	v.Assert(err == nil, "C14.cookie.keylens.encrypts")
	var dc EncryptedServerCookie
	v.Assert(dc.Decode(ec.Encode()) == nil, "C14.cookie.keylens.own-cookie-decodes")
	pc, err := dc.Decrypt(key)
	v.Assert(err == nil && pc.Algo == c.Algo && bytes.Equal(pc.S2C, c.S2C) && bytes.Equal(pc.C2S, c.C2S), "C14.cookie.keylens.encrypted-roundtrip")
	v.Reach("C14.cookiekeys")
}

func VerifC14CookieKeys32x64() { c14CookieKeys(32, 64) }
func VerifC14CookieKeys64x32() { c14CookieKeys(64, 32) }
func VerifC14CookieKeys0x16()  { c14CookieKeys(0, 16) }

// a cookie with the same layout but arbitrary nonce / ciphertext bytes opens only if they are the sealed ones
func VerifC10CookieTamper() {
	key := v.Bytes("key", 32)
	c := ServerCookie{Algo: v.Uint16("algo"), S2C: v.Bytes("s2c", 32), C2S: v.Bytes("c2s", 32)}
	ec, err := c.EncryptWithNonce(key, 7)
	v.Assume(err == nil)
	wire := ec.Encode()
	wire2 := make([]byte, len(wire))
	copy(wire2, wire)
	adv := v.Bytes("adv", len(wire))
	for i := 10; i < 26; i++ {
		wire2[i] = adv[i]
	}
	for i := 30; i < len(wire); i++ {
		wire2[i] = adv[i]
	}
	var tc EncryptedServerCookie
	if tc.Decode(wire2) == nil {
		if _, err := tc.Decrypt(key); err == nil {
			v.Assert(bytes.Equal(tc.Nonce, ec.Nonce) && bytes.Equal(tc.Ciphertext, ec.Ciphertext), "C10.cookie.tampered-nonce-or-ciphertext-rejected")
		}
	}
	v.Reach("C10.cookietamper")
}
