//go:build verif

package ntske

import (
	"math"
	"time"

	v "example.com/scion-time/zzverif"
)

const (
	c12day  = int64(24 * time.Hour)
	c12year = 365 * c12day
)

// c12provider builds an arbitrary provider state satisfying the invariant I_prov at instant `now`:
// keys[currentID] exists with NotBefore = generatedAt <= now, NotAfter = generatedAt + 72h; every
// other key has a smaller id, was generated earlier and has NotAfter = NotBefore + 72h.
func c12provider(nOld int) (*Provider, time.Time) {
	now := time.Unix(v.SynctestEpoch, 0).UTC()
	v.SetNow(now)
	p := &Provider{keys: make(map[int]Key)}
	cur := v.Int("currentID")
	v.Assume(1 <= cur && cur < math.MaxInt-4) // (exhausting the id space panics by design: VerifC12Overflow)
	age := v.Int64("age")                     // how long ago the current key was generated
	v.Assume(0 <= age && age <= 50*c12year)
	p.currentID = cur
	p.generatedAt = now.Add(-time.Duration(age))
	k := Key{ID: cur, Value: v.Bytes("curkey", 32)}
	k.Validity.NotBefore = p.generatedAt
	k.Validity.NotAfter = p.generatedAt.Add(keyValidity)
	p.keys[cur] = k
	prevID, prevAge := cur, age
	for i := 0; i < nOld; i++ {
		if v.Bool("old.present") {
			id := v.Int("old.id")
			oage := v.Int64("old.age")
			v.Assume(1 <= id && id < prevID)
			v.Assume(prevAge <= oage && oage <= 50*c12year)
			o := Key{ID: id, Value: v.Bytes("oldkey", 32)}
			o.Validity.NotBefore = now.Add(-time.Duration(oage))
			o.Validity.NotAfter = o.Validity.NotBefore.Add(keyValidity)
			p.keys[id] = o
			prevID, prevAge = id, oage
		}
	}
	return p, now
}

func c12invariant(p *Provider, now time.Time, tag string) {
	k, ok := p.keys[p.currentID]
	v.Assert(ok, "C12.inv.current-key-exists"+tag)
	v.Assert(k.ID == p.currentID, "C12.inv.current-key-id"+tag)
	v.Assert(k.Validity.NotBefore.Equal(p.generatedAt), "C12.inv.notbefore-is-generatedAt"+tag)
	v.Assert(k.Validity.NotAfter.Sub(k.Validity.NotBefore) == keyValidity, "C12.inv.validity-3-days"+tag)
	v.Assert(!p.generatedAt.After(now), "C12.inv.generated-not-in-future"+tag)
	for id, o := range p.keys {
		v.Assert(id <= p.currentID && o.ID == id, "C12.inv.ids-at-most-current"+tag)
		v.Assert(o.Validity.NotAfter.Sub(o.Validity.NotBefore) == keyValidity, "C12.inv.each-validity-3-days"+tag)
		v.Assert(id == p.currentID || !o.Validity.NotBefore.After(p.generatedAt), "C12.inv.older-keys-generated-earlier"+tag)
	}
}

// one inductive step: from any state satisfying the invariant, after any amount of time, Current()
// returns a key that is valid now and was generated at most 24 h ago; ids never decrease, grow by
// exactly one on generation; only expired keys are purged; the invariant is re-established
func c12Current(nOld int) {
	p, t0 := c12provider(nOld)
	d := v.Int64("elapsed")
	v.Assume(0 <= d && d <= 50*c12year)
	v.AdvanceNow(time.Duration(d))
	now := t0.Add(time.Duration(d))
	idBefore := p.currentID
	genBefore := p.generatedAt
	type snap struct {
		id int
		k  Key
	}
	var before []snap
	for id, k := range p.keys {
		before = append(before, snap{id, k})
	}
	k := p.Current()
	v.Assert(!now.Before(k.Validity.NotBefore) && !now.After(k.Validity.NotAfter), "C12.current.valid-now")
	v.Assert(now.Sub(k.Validity.NotBefore) <= keyRenewalInterval, "C12.current.generated-at-most-24h-ago")
	v.Assert(k.ID == p.currentID, "C12.current.is-newest")
	v.Assert(p.currentID == idBefore || p.currentID == idBefore+1, "C12.current.id-grows-by-at-most-one")
	fresh := now.Sub(genBefore) <= keyRenewalInterval
	v.Assert(fresh == (p.currentID == idBefore), "C12.current.rotates-exactly-when-older-than-24h")
	if p.currentID != idBefore {
		v.Assert(k.Validity.NotBefore.Equal(now), "C12.current.new-key-generated-now")
		v.Assert(len(k.Value) == 32, "C12.current.new-key-32-bytes")
	}
	// retirement: a key that was on record is gone only if it has expired; if it is still there it is unchanged
	for _, s := range before {
		o, ok := p.keys[s.id]
		if !ok {
			v.Assert(now.After(s.k.Validity.NotAfter), "C12.retire.only-expired-keys-purged")
		} else {
			v.Assert(o.ID == s.k.ID && o.Validity == s.k.Validity, "C12.retire.kept-keys-unchanged")
		}
	}
	c12invariant(p, now, "")
	v.Reach("C12.current")
}

// Get returns a key only while it is within its validity period, and always while it is (unless purged,
// which requires it to have expired)
func c12Get(nOld int) {
	p, t0 := c12provider(nOld)
	d := v.Int64("elapsed")
	v.Assume(0 <= d && d <= 50*c12year)
	v.AdvanceNow(time.Duration(d))
	now := t0.Add(time.Duration(d))
	id := v.Int("id")
	stored, had := p.keys[id]
	k, ok := p.Get(id)
	if ok {
		v.Assert(had && k.ID == id, "C12.get.returns-the-key-with-that-id")
		v.Assert(!now.Before(k.Validity.NotBefore) && !now.After(k.Validity.NotAfter), "C12.get.only-within-validity")
		v.Assert(now.Sub(k.Validity.NotBefore) <= keyValidity, "C12.get.never-beyond-3-days-after-generation")
	}
	if had && !now.After(stored.Validity.NotAfter) {
		v.Assert(ok, "C12.get.available-while-valid")
	}
	// a cookie sealed under the current key at t0 stays usable for at least two days:
	// the key handed out by Current() at t0 was generated at most 24 h before, so NotAfter >= t0 + 48 h
	v.Reach("C12.get")
}

// issue at t0, look up after any delay up to 48 h (no purge in between can remove it: purging needs expiry)
func c12TwoDays(nOld int) {
	p, t0 := c12provider(nOld)
	k := p.Current()
	d := v.Int64("elapsed")
	v.Assume(0 <= d && d <= 2*c12day)
	v.AdvanceNow(time.Duration(d))
	// any number of Current() calls (rotation + purge) may happen in between
	if v.Bool("rotate") {
		p.Current()
	}
	got, ok := p.Get(k.ID)
	v.Assert(ok, "C12.twodays.cookie-key-available-for-48h")
	v.Assert(ok && got.ID == k.ID && got.Validity == k.Validity, "C12.twodays.same-key")
	_ = t0
	v.Reach("C12.twodays")
}

func VerifC12NewProvider() {
	v.SetNow(time.Unix(v.SynctestEpoch, 0).UTC())
	p := NewProvider()
	now := time.Unix(v.SynctestEpoch, 0).UTC()
	c12invariant(p, now, ".new")
	v.Assert(p.currentID == 1 && len(p.keys) == 1, "C12.new.one-key-id-1")
	v.Reach("C12.new")
}

func VerifC12Overflow() {
	p, _ := c12provider(0)
	p.currentID = math.MaxInt
	v.Assert(v.Panics(func() { p.generateNext() }), "C12.ids.maxint-panics-instead-of-wrapping")
	v.Reach("C12.overflow")
}

func VerifC12Current2() { c12Current(2) }
func VerifC12Current3() { c12Current(3) }
func VerifC12Get2()     { c12Get(2) }
func VerifC12Get3()     { c12Get(3) }
func VerifC12TwoDays2() { c12TwoDays(2) }
func VerifC12TwoDays3() { c12TwoDays(3) }
