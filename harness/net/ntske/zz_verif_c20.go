//go:build verif

package ntske

import (
	"bufio"
	"bytes"
	"context"
	"io"
	"log/slog"

	v "example.com/scion-time/zzverif"
)

// c20reader delivers a byte stream in arbitrary segments (the io.Reader contract: 1 <= n <= len(p) while
// data remains). The symbolic engine knows its layout {data, pos}.
type c20reader struct {
	data   []byte
	pos    int
	chunks []byte // chunks[pos] decides how many bytes the read at stream position pos delivers
}

func (r *c20reader) Read(p []byte) (int, error) {
	rem := len(r.data) - r.pos
	if rem <= 0 {
		return 0, io.EOF
	}
	if len(p) == 0 {
		return 0, nil
	}
	max := rem
	if len(p) < max {
		max = len(p)
	}
	n := 1 + int(r.chunks[r.pos])%max
	copy(p, r.data[r.pos:r.pos+n])
	r.pos += n
	return n, nil
}

// reference parser: what the record stream means, independent of how it is segmented
type c20spec struct {
	ok      bool
	algo    uint16
	port    uint16
	hasPort bool
	cookies [][]byte
	server  []byte
	hasSrv  bool
}

func c20parse(b []byte, maxRec int) (s c20spec) {
	pos := 0
	for i := 0; i < maxRec; i++ {
		if len(b)-pos < 4 {
			return // truncated header: error
		}
		t := uint16(b[pos])<<8 | uint16(b[pos+1])
		n := int(uint16(b[pos+2])<<8 | uint16(b[pos+3]))
		crit := t&0x8000 != 0
		t &^= 0x8000
		pos += 4
		switch t {
		case RecEom:
			s.ok = true
			return
		case RecNextproto:
			if len(b)-pos < 2 {
				return
			}
			pos += 2
		case RecAead:
			if len(b)-pos < 2 {
				return
			}
			s.algo = uint16(b[pos])<<8 | uint16(b[pos+1])
			pos += 2
		case RecCookie:
			if len(b)-pos < n {
				return
			}
			s.cookies = append(s.cookies, b[pos:pos+n])
			pos += n
		case RecServer:
			if len(b)-pos < n {
				return
			}
			s.server, s.hasSrv = b[pos:pos+n], true
			pos += n
		case RecPort:
			if len(b)-pos < 2 {
				return
			}
			s.port, s.hasPort = uint16(b[pos])<<8|uint16(b[pos+1]), true
			pos += 2
		case RecError:
			return
		default:
			if crit {
				return
			}
			if len(b)-pos < n {
				return
			}
			pos += n
		}
	}
	return
}

// ReadData agrees with the reference parser for every stream and every segmentation
func c20ReadData(maxLen, maxRec int) {
	raw := v.Bytes("stream", maxLen)
	n := v.Int("n")
	v.Assume(0 <= n && n <= maxLen)
	stream := raw[:n]
	spec := c20parse(stream, maxRec)
	var data Data
	rd := bufio.NewReader(&c20reader{data: stream, chunks: v.Bytes("chunks", maxLen)})
	err := ReadData(context.Background(), slog.New(slog.DiscardHandler), rd, &data)
	// streams with more than maxRec records are outside this harness (the reference parser stops)
	if err == nil {
		v.Assert(spec.ok, "C20.readdata.success-only-for-properly-terminated-streams-without-error-or-critical-records")
	}
	if spec.ok {
		v.Assert(err == nil, "C20.readdata.accepts-every-well-formed-stream-however-segmented")
		if err == nil {
			v.Assert(data.Algo == spec.algo, "C20.readdata.algorithm")
			v.Assert(len(data.Cookie) == len(spec.cookies), "C20.readdata.cookie-count")
			for i := range spec.cookies {
				if i < len(data.Cookie) {
					v.Assert(bytes.Equal(data.Cookie[i], spec.cookies[i]), "C20.readdata.cookies-are-exactly-the-cookie-records")
				}
			}
			if spec.hasPort {
				v.Assert(data.Port == spec.port, "C20.readdata.port")
			}
			if spec.hasSrv {
				v.Assert(data.Server == string(spec.server), "C20.readdata.server")
			}
		}
	}
	v.Reach("C20.readdata")
}

func VerifC20ReadData12() { c20ReadData(12, 3) }
func VerifC20ReadData16() { c20ReadData(16, 4) }
func VerifC20ReadData24() { c20ReadData(24, 6) }
