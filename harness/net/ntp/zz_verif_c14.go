//go:build verif

package ntp

import (
	v "example.com/scion-time/zzverif"
)

// value -> bytes -> value, for every header value; accessors agree with the first byte
func VerifC14NTPValueRoundTrip() {
	var p, q Packet
	v.Havoc("p", &p)
	var b []byte
	if v.Bool("prealloc") {
		b = make([]byte, 0, 64)
	}
	EncodePacket(&b, &p)
	v.Assert(len(b) == PacketLen, "C14.ntp.encoded-length-48")
	err := DecodePacket(&q, b)
	v.Assert(err == nil, "C14.ntp.decode-accepts-encoded")
	v.Assert(p == q, "C14.ntp.value-roundtrip")
	v.Assert(b[0] == p.LeapIndicator()<<6|p.Version()<<3|p.Mode(), "C14.ntp.accessors-agree-with-first-byte")
	v.Assert(p.LeapIndicator() < 4 && p.Version() < 8 && p.Mode() < 8, "C14.ntp.accessor-ranges")
	v.Reach("C14.ntpvalue")
}

// bytes -> value -> bytes, for every 48-byte header (longer buffers: only the first 48 are read)
func VerifC14NTPBytesRoundTrip() {
	in := v.Bytes("in", 52)
	n := v.Int("n")
	v.Assume(0 <= n && n <= 52)
	var p Packet
	err := DecodePacket(&p, in[:n])
	v.Assert((err == nil) == (n >= PacketLen), "C14.ntp.decode-accepts-iff-at-least-48-bytes")
	if err == nil {
		var out []byte
		EncodePacket(&out, &p)
		for i := 0; i < PacketLen; i++ {
			v.Assert(out[i] == in[i], "C14.ntp.bytes-roundtrip")
		}
	}
	v.Reach("C14.ntpbytes")
}

// setters store exactly the field they name and leave the other two untouched
func VerifC14NTPSetters() {
	var p Packet
	v.Havoc("p", &p)
	li, vn, mode := v.Uint8("li"), v.Uint8("vn"), v.Uint8("mode")
	v.Assume(li < 4 && vn < 8 && mode < 8)
	p.SetLeapIndicator(li)
	p.SetVersion(vn)
	p.SetMode(mode)
	v.Assert(p.LeapIndicator() == li && p.Version() == vn && p.Mode() == mode, "C14.ntp.setters-getters")
	big := v.Uint8("big")
	v.Assume(big >= 8)
	v.Assert(v.Panics(func() { p.SetMode(big) }) && v.Panics(func() { p.SetVersion(big) }) && v.Panics(func() { p.SetLeapIndicator(big) }), "C14.ntp.setters-reject-out-of-range")
	v.Reach("C14.ntpsetters")
}
