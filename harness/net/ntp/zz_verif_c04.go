//go:build verif

package ntp

import (
	"time"

	v "example.com/scion-time/zzverif"
)

// C04: TimeFromTime64(Time64FromTime(t), t0) is within 1 ns of t, never later,
// for every t in 1970..2514 and every reference t0 within 2^31 s of t.
func VerifC04RoundTrip() {
	sec, ns := v.Int64("sec"), v.Int64("ns")
	rsec, rns := v.Int64("rsec"), v.Int64("rns")
	v.Assume(0 <= ns && ns < 1000000000 && 0 <= rns && rns < 1000000000)
	v.Assume(0 <= sec && sec < 1<<34)
	v.Assume(0 <= rsec && rsec < 1<<34)
	d := sec - rsec
	// the half-open window the conversion resolves: t0.sec - 2^31 <= t.sec < t0.sec + 2^31
	v.Assume(-(1<<31) <= d && d < 1<<31)
	t := time.Unix(sec, ns).UTC()
	t0 := time.Unix(rsec, rns).UTC()
	u := TimeFromTime64(Time64FromTime(t), t0)
	us, un := u.Unix(), int64(u.Nanosecond())
	// component form of 0 <= t.Sub(u) <= 1ns
	v.Assert(us == sec, "C04.roundtrip.seconds-equal")
	v.Assert(un <= ns, "C04.roundtrip.never-later")
	v.Assert(ns-un <= 1, "C04.roundtrip.within-1ns")
	v.Reach("C04.roundtrip")
}

// order preservation inside one window: t <= t' => back(t) <= back(t')
func VerifC04Order() {
	sec, ns := v.Int64("sec"), v.Int64("ns")
	sec2, ns2 := v.Int64("sec2"), v.Int64("ns2")
	rsec, rns := v.Int64("rsec"), v.Int64("rns")
	v.Assume(0 <= ns && ns < 1000000000 && 0 <= rns && rns < 1000000000 && 0 <= ns2 && ns2 < 1000000000)
	v.Assume(0 <= sec && sec < 1<<34 && 0 <= sec2 && sec2 < 1<<34)
	v.Assume(0 <= rsec && rsec < 1<<34)
	d, d2 := sec-rsec, sec2-rsec
	v.Assume(-(1<<31) <= d && d < 1<<31 && -(1<<31) <= d2 && d2 < 1<<31)
	v.Assume(sec < sec2 || sec == sec2 && ns <= ns2)
	t := time.Unix(sec, ns).UTC()
	t2 := time.Unix(sec2, ns2).UTC()
	t0 := time.Unix(rsec, rns).UTC()
	a, b := Time64FromTime(t), Time64FromTime(t2)
	u := TimeFromTime64(a, t0)
	u2 := TimeFromTime64(b, t0)
	v.Assert(u.Unix() <= u2.Unix(), "C04.order.seconds")
	// (the sub-second order is decided component-wise by VerifC04OrderFrac: the
	// monolithic formula is not decided by any back end within 60 s)
	// wire order agrees with time order when both stamps are in one era
	if (sec+2208988800)>>32 == (sec2+2208988800)>>32 {
		v.Assert(!b.Before(a), "C04.order.time64-before")
		v.Assert(!a.After(b), "C04.order.time64-after")
	}
	v.Reach("C04.order")
}

// the fraction field is the truncated binary fraction: floor(ns * 2^32 / 1e9),
// and the seconds field is the era-reduced second count
func VerifC04Fields() {
	sec, ns := v.Int64("sec"), v.Int64("ns")
	v.Assume(0 <= ns && ns < 1000000000)
	v.Assume(0 <= sec && sec < 1<<34)
	t := time.Unix(sec, ns).UTC()
	x := Time64FromTime(t)
	v.Assert(uint64(x.Seconds) == uint64(sec+2208988800)&0xffffffff, "C04.fields.seconds")
	f := uint64(x.Fraction)
	v.Assert(f*1000000000 <= uint64(ns)<<32, "C04.fields.fraction-floor-lo")
	v.Assert((f+1)*1000000000 > uint64(ns)<<32, "C04.fields.fraction-floor-hi")
	v.Reach("C04.fields")
}

// sub-second order, component-wise: the fraction is monotone in the nanoseconds,
// and the nanoseconds read back are monotone in the fraction (same seconds, same reference)
func VerifC04OrderFrac() {
	sec, ns, ns2 := v.Int64("sec"), v.Int64("ns"), v.Int64("ns2")
	v.Assume(0 <= ns && ns <= ns2 && ns2 < 1000000000)
	v.Assume(0 <= sec && sec < 1<<34)
	a := Time64FromTime(time.Unix(sec, ns).UTC())
	b := Time64FromTime(time.Unix(sec, ns2).UTC())
	v.Assert(a.Seconds == b.Seconds, "C04.orderfrac.same-seconds")
	v.Assert(a.Fraction <= b.Fraction, "C04.orderfrac.fraction-monotone")
	v.Assert(ns == ns2 || a.Fraction < b.Fraction, "C04.orderfrac.fraction-strictly-monotone")
	v.Assert(!b.Before(a) && !a.After(b), "C04.orderfrac.before-after")

	s32, f, f2 := v.Uint32("s32"), v.Uint32("f"), v.Uint32("f2")
	rsec, rns := v.Int64("rsec"), v.Int64("rns")
	v.Assume(0 <= rns && rns < 1000000000 && 0 <= rsec && rsec < 1<<34)
	v.Assume(f <= f2)
	t0 := time.Unix(rsec, rns).UTC()
	u := TimeFromTime64(Time64{Seconds: s32, Fraction: f}, t0)
	u2 := TimeFromTime64(Time64{Seconds: s32, Fraction: f2}, t0)
	v.Assert(u.Unix() == u2.Unix(), "C04.orderfrac.back-same-seconds")
	v.Assert(u.Nanosecond() <= u2.Nanosecond(), "C04.orderfrac.back-nanos-monotone")
	v.Assert(0 <= u.Nanosecond() && u.Nanosecond() < 1000000000, "C04.orderfrac.back-nanos-range")
	v.Reach("C04.orderfrac")
}
