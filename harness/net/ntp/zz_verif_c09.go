//go:build verif

package ntp

import (
	v "example.com/scion-time/zzverif"
)

// ValidateRequest accepts exactly: leap indicator 0 or 3, and version 2-4 with mode 3 or version 1 with mode 0
func VerifC09ValidateRequest() {
	var p Packet
	v.Havoc("p", &p)
	port := v.Uint16("port")
	li, vn, mode := p.LVM>>6, (p.LVM>>3)&7, p.LVM&7
	want := (li == 0 || li == 3) && ((vn >= 2 && vn <= 4 && mode == 3) || (vn == 1 && mode == 0))
	err := ValidateRequest(&p, port)
	v.Assert((err == nil) == want, "C09.validate.accepts-exactly-the-client-requests")
	// anti-reflection: no server reply (v4, mode 4) and, more generally, no mode-4 packet is a valid request
	if err == nil {
		v.Assert(mode == 3 || mode == 0, "C09.validate.accepted-mode-is-client-or-reserved0")
		v.Assert(mode != ModeServer, "C09.validate.never-accepts-a-server-reply")
	}
	v.Reach("C09.validate")
}

// a response that passes the client's metadata validation is never a valid request (two servers
// cannot be made to answer each other), and the reply header the server builds is not a request
func VerifC09ReplyNotARequest() {
	var resp Packet
	v.Havoc("resp", &resp)
	resp.LVM = 0
	resp.SetVersion(VersionMax)
	resp.SetMode(ModeServer)
	resp.Stratum = 1
	v.Assert(resp.LVM == 0x24, "C09.reply.first-byte-is-0x24")
	v.Assert(ValidateRequest(&resp, v.Uint16("port")) != nil, "C09.reply.is-not-a-valid-request")
	var q Packet
	v.Havoc("q", &q)
	if ValidateResponseMetadata(&q) == nil {
		v.Assert(ValidateRequest(&q, v.Uint16("port")) != nil, "C09.reply.valid-response-never-valid-request")
	}
	v.Reach("C09.replynotrequest")
}
