//go:build verif

package timemath

import (
	"time"

	v "example.com/scion-time/zzverif"
)

const c02lim = 1 << 62

// L1: the two-value midpoint lies between its arguments, no overflow for |x|,|y| < 2^62
func VerifC02Midpoint() {
	x, y := v.Int64("x"), v.Int64("y")
	v.Assume(-c02lim < x && x < c02lim && -c02lim < y && y < c02lim)
	m := int64(Midpoint(time.Duration(x), time.Duration(y)))
	if x <= y {
		v.Assert(x <= m && m <= y, "C02.midpoint.between-xy")
	} else {
		v.Assert(y <= m && m <= x, "C02.midpoint.between-yx")
	}
	v.Reach("C02.midpoint")
}

func c02inputs(n int) []time.Duration {
	ds := make([]time.Duration, n)
	for i := 0; i < n; i++ {
		x := v.Int64("in")
		v.Assume(-c02lim < x && x < c02lim)
		ds[i] = time.Duration(x)
	}
	return ds
}

// L2 (selection): with at most f=(n-1)/3 arbitrary inputs, the fault-tolerant midpoint lies
// within [lo,hi] whenever at least n-f inputs do (which inputs are faulty is the solver's choice)
func c02FTM(n int) {
	ds := c02inputs(n)
	lo, hi := v.Int64("lo"), v.Int64("hi")
	v.Assume(lo <= hi)
	good := 0
	for i := 0; i < n; i++ {
		if lo <= int64(ds[i]) && int64(ds[i]) <= hi {
			good++
		}
	}
	f := (n - 1) / 3
	v.Assume(good >= n-f)
	orig := make([]time.Duration, n)
	copy(orig, ds)
	m := int64(FaultTolerantMidpoint(ds))
	v.Assert(lo <= m && m <= hi, "C02.ftm.within-correct-range")
	c02Reordered(orig, ds, n)
	v.Reach("C02.ftm")
}

// the caller's slice is only reordered: same multiset for n <= 4 (by counting), for larger n
// every original value is still present and every present value is an original one
func c02Reordered(orig, ds []time.Duration, n int) {
	if n <= 4 {
		for i := 0; i < n; i++ {
			c0, c1 := 0, 0
			for j := 0; j < n; j++ {
				if orig[j] == orig[i] {
					c0++
				}
				if ds[j] == orig[i] {
					c1++
				}
			}
			v.Assert(c0 == c1, "C02.slice-only-reordered")
		}
		return
	}
	for i := 0; i < n; i++ {
		in, out := false, false
		for j := 0; j < n; j++ {
			in = in || ds[j] == orig[i]
			out = out || orig[j] == ds[i]
		}
		v.Assert(in && out, "C02.slice-only-reordered")
	}
}

// ds[k] is the k-th smallest of orig: a statement about the multiset of inputs only, which
// determines the value uniquely; so the result does not depend on the order of the inputs
func c02Rank(orig, ds []time.Duration, n, k int, id string) {
	lt, le := 0, 0
	for j := 0; j < n; j++ {
		if orig[j] < ds[k] {
			lt++
		}
		if orig[j] <= ds[k] {
			le++
		}
	}
	v.Assert(lt <= k && k < le, id)
}

func c02Median(n int) {
	ds := c02inputs(n)
	mn, mx := int64(ds[0]), int64(ds[0])
	for i := 1; i < n; i++ {
		if int64(ds[i]) < mn {
			mn = int64(ds[i])
		}
		if int64(ds[i]) > mx {
			mx = int64(ds[i])
		}
	}
	// rank specification: at least ceil(n/2) inputs are <= median and at least ceil(n/2) are >= median
	orig := make([]time.Duration, n)
	copy(orig, ds)
	m := int64(Median(ds))
	v.Assert(mn <= m && m <= mx, "C02.median.within-min-max")
	le, ge := 0, 0
	for i := 0; i < n; i++ {
		if int64(orig[i]) <= m {
			le++
		}
		if int64(orig[i]) >= m {
			ge++
		}
	}
	v.Assert(2*le >= n && 2*ge >= n, "C02.median.rank")
	c02Reordered(orig, ds, n)
	v.Reach("C02.median")
}

// L3: order independence: swapping any two adjacent inputs does not change the results
// (adjacent transpositions generate every permutation)
func c02Perm(n int, median bool) {
	ds := c02inputs(n)
	ps := make([]time.Duration, n)
	k := v.Int("k")
	v.Assume(0 <= k && k < n-1)
	for i := 0; i < n; i++ {
		ps[i] = ds[i]
		if i == k {
			ps[i] = ds[i+1]
		}
		if i > 0 && i == k+1 {
			ps[i] = ds[i-1]
		}
	}
	if median {
		v.Assert(Median(ds) == Median(ps), "C02.median.order-independent")
	} else {
		v.Assert(FaultTolerantMidpoint(ds) == FaultTolerantMidpoint(ps), "C02.ftm.order-independent")
	}
	v.Reach("C02.perm")
}

func VerifC02Empty() {
	v.Assert(v.Panics(func() { FaultTolerantMidpoint(nil) }), "C02.ftm.empty-panics")
	v.Assert(v.Panics(func() { Median([]time.Duration{}) }), "C02.median.empty-panics")
	x := v.Int64("x")
	one := []time.Duration{time.Duration(x)}
	v.Assert(!v.Panics(func() { FaultTolerantMidpoint(one) }), "C02.ftm.single-no-panic")
	v.Assert(FaultTolerantMidpoint(one) == time.Duration(x) && Median(one) == time.Duration(x), "C02.single-is-identity")
	v.Reach("C02.empty")
}

func VerifC02FTM1()  { c02FTM(1) }
func VerifC02FTM2()  { c02FTM(2) }
func VerifC02FTM3()  { c02FTM(3) }
func VerifC02FTM4()  { c02FTM(4) }
func VerifC02FTM5()  { c02FTM(5) }
func VerifC02FTM6()  { c02FTM(6) }
func VerifC02FTM7()  { c02FTM(7) }
func VerifC02FTM8()  { c02FTM(8) }
func VerifC02FTM9()  { c02FTM(9) }
func VerifC02FTM10() { c02FTM(10) }

func VerifC02Median1() { c02Median(1) }
func VerifC02Median2() { c02Median(2) }
func VerifC02Median3() { c02Median(3) }
func VerifC02Median4() { c02Median(4) }
func VerifC02Median5() { c02Median(5) }
func VerifC02Median6() { c02Median(6) }
func VerifC02Median7() { c02Median(7) }
func VerifC02Median8() { c02Median(8) }

func VerifC02Perm2()  { c02Perm(2, false) }
func VerifC02PermM2() { c02Perm(2, true) }
func VerifC02Perm3()  { c02Perm(3, false) }
func VerifC02PermM3() { c02Perm(3, true) }
func VerifC02Perm4()  { c02Perm(4, false) }
func VerifC02PermM4() { c02Perm(4, true) }
func VerifC02Perm5()  { c02Perm(5, false) }
func VerifC02PermM5() { c02Perm(5, true) }
func VerifC02Perm6()  { c02Perm(6, false) }
func VerifC02PermM6() { c02Perm(6, true) }
func VerifC02Perm7()  { c02Perm(7, false) }
func VerifC02PermM7() { c02Perm(7, true) }
