//go:build verif

package crypto

import (
	"context"
	"math"

	v "example.com/scion-time/zzverif"
)

// every output of the generator is covered: whatever bytes crypto/rand delivers, RandIntn(n) is in [0, n)
func VerifC15RandIntn31() {
	n := v.Int("n")
	v.Assume(1 <= n && n <= math.MaxInt32)
	r, err := RandIntn(context.Background(), n)
	if err == nil {
		v.Assert(0 <= r && r < n, "C15.randintn.result-in-range")
	}
	v.Reach("C15.randintn31")
}

// the rejection threshold: accepted values are those above t = 2^32 mod n, so the accepted range
// (t, 2^32) misses a whole number of residue classes by exactly one value (n up to 2^12: the 64-bit
// remainder of two symbolic operands is not decided for larger n within the time limit)
func VerifC15Threshold() {
	n := v.Int("n")
	v.Assume(1 <= n && n <= 1<<12)
	t := uint32(-n) % uint32(n)
	v.Assert((uint64(1)<<32-uint64(t))%uint64(n) == 0, "C15.randintn.accepted-range-is-multiple-of-n-minus-one")
	v.Assert(uint64(t) < uint64(n), "C15.randintn.threshold-below-n")
	v.Reach("C15.threshold")
}

func VerifC15RandIntn63() {
	n := v.Int("n")
	v.Assume(math.MaxInt32 < n)
	r, err := RandIntn(context.Background(), n)
	if err == nil {
		v.Assert(0 <= r && r < n, "C15.randintn63.result-in-range")
	}
	v.Assert(v.Panics(func() { RandIntn(context.Background(), 0) }), "C15.randintn.nonpositive-refused")
	v.Reach("C15.randintn63")
}

// reservoir sampling: min(k, n) picks, every destination slot below k, every source below n, each
// destination finally holds a distinct source (the participants get pairwise distinct paths)
func c15Sample(k, n int) {
	var slot [8]int
	for i := range slot {
		slot[i] = -1
	}
	m, err := Sample(context.Background(), k, n, func(dst, src int) {
		v.Assert(0 <= dst && dst < k && dst < n, "C15.sample.destination-in-range")
		v.Assert(0 <= src && src < n, "C15.sample.source-in-range")
		if 0 <= dst && dst < 8 {
			slot[dst] = src
		}
	})
	if err == nil {
		want := k
		if n < k {
			want = n
		}
		v.Assert(m == want, "C15.sample.returns-min-k-n")
		for i := 0; i < 8; i++ {
			if i < m {
				v.Assert(0 <= slot[i] && slot[i] < n, "C15.sample.every-slot-filled")
				for j := 0; j < i; j++ {
					v.Assert(slot[i] != slot[j], "C15.sample.slots-pairwise-distinct")
				}
			} else {
				v.Assert(slot[i] == -1, "C15.sample.no-more-slots-than-min-k-n")
			}
		}
	}
	v.Reach("C15.sample")
}

func VerifC15Sample_0_3() { c15Sample(0, 3) }
func VerifC15Sample_2_0() { c15Sample(2, 0) }
func VerifC15Sample_2_2() { c15Sample(2, 2) }
func VerifC15Sample_2_4() { c15Sample(2, 4) }
func VerifC15Sample_3_2() { c15Sample(3, 2) }
func VerifC15Sample_3_5() { c15Sample(3, 5) }
func VerifC15Sample_4_6() { c15Sample(4, 6) }
