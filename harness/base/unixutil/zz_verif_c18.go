//go:build verif

package unixutil

import (
	v "example.com/scion-time/zzverif"
)

// every int64 nanosecond count splits into (sec, sub-second in [0,1e9)) that recombines to it
func VerifC18Timeval() {
	n := v.Int64("n")
	tv := TimevalFromNsec(n)
	v.Assert(0 <= tv.Usec && tv.Usec < 1000000000, "C18.timeval.subsecond-range")
	v.Assert(tv.Sec*1000000000+tv.Usec == n, "C18.timeval.recombines")
	v.Assert(-9223372037 <= tv.Sec && tv.Sec <= 9223372036, "C18.timeval.seconds-range")
	v.Assert((n >= 0) == (tv.Sec >= 0), "C18.timeval.sign")
	v.Reach("C18.timeval")
}

// cheap facts of the frequency <-> scaled-ppm conversions (the exact-FP round trip is undecided, see DESIGN C18)
func VerifC18FreqFacts() {
	x := v.Int64("x")
	f := FreqFromScaledPPM(x)
	v.Assert((x == 0) == (f == 0), "C18.freq.zero")
	v.Assert((x > 0) == (f > 0), "C18.freq.sign-pos")
	v.Assert((x < 0) == (f < 0), "C18.freq.sign-neg")
	v.Assert(ScaledPPMFromFreq(0) == 0, "C18.freq.zero-back")
	v.Reach("C18.freqfacts")
}

// round trip within one unit for |x| <= bound (bound stated per tier)
func VerifC18FreqRoundTrip() {
	x := v.Int64("x")
	b := v.Int64("bound")
	v.Assume(b == 1<<8)
	v.Assume(-b <= x && x <= b)
	y := ScaledPPMFromFreq(FreqFromScaledPPM(x))
	v.Assert(y-x <= 1 && x-y <= 1, "C18.freq.roundtrip-1ulp")
	v.Reach("C18.freqroundtrip")
}
