//go:build verif && linux

package clocks

import (
	"math"
	"time"

	v "example.com/scion-time/zzverif"
)

func VerifC18Drift() {
	d := v.Int64("d")
	c := &SystemClock{drift: UnknownDrift}
	v.Assert(c.Drift(time.Duration(d)) == math.MaxInt64, "C18.drift.unknown-is-maxint64")
	v.Reach("C18.drift")
}

// The drift allowance for a known drift rate: what "proportional to the interval" implies and a solver can
// decide about a floating-point product - zero for a zero interval, never negative and growing with the
// interval (intervals up to 2^62 ns, rates up to 1 %).
func VerifC18DriftShape() {
	drift := v.Float64("drift")
	v.Assume(drift > 0 && drift <= 0.01)
	d1, d2 := v.Int64("d1"), v.Int64("d2")
	v.Assume(0 <= d1 && d1 <= d2 && d2 <= 1<<62)
	c := &SystemClock{drift: drift}
	a, b := c.Drift(time.Duration(d1)), c.Drift(time.Duration(d2))
	v.Assert(c.Drift(0) == 0, "C18.drift.zero-interval-zero-allowance")
	v.Assert(a >= 0, "C18.drift.never-negative-for-a-positive-rate")
	v.Assert(a <= b, "C18.drift.grows-with-the-interval")
	v.Reach("C18.driftshape")
}
