//go:build verif && linux

package clocks

import (
	"math"
	"time"

	v "example.com/scion-time/zzverif"
)

func VerifC18Drift() {
	d := v.Int64("d")
	c := &SystemClock{drift: UnknownDrift}
	v.Assert(c.Drift(time.Duration(d)) == math.MaxInt64, "C18.drift.unknown-is-maxint64")
	v.Reach("C18.drift")
}
