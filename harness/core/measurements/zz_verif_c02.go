//go:build verif

package measurements

import (
	"time"

	v "example.com/scion-time/zzverif"
)

const c02lim = 1 << 62
const c02tlim = 1 << 62 // instants 1970..2116 in ns

// L1 for timestamped measurements: offset between, timestamp between, error nil
func VerifC02MMidpoint() {
	xo, yo := v.Int64("xo"), v.Int64("yo")
	xt, yt := v.Int64("xt"), v.Int64("yt")
	v.Assume(-c02lim < xo && xo < c02lim && -c02lim < yo && yo < c02lim)
	v.Assume(0 <= xt && xt < c02tlim && 0 <= yt && yt < c02tlim)
	x := Measurement{Timestamp: v.TimeNs(xt), Offset: time.Duration(xo), Error: errC02}
	y := Measurement{Timestamp: v.TimeNs(yt), Offset: time.Duration(yo)}
	m := midpoint(x, y)
	mo := int64(m.Offset)
	if xo <= yo {
		v.Assert(xo <= mo && mo <= yo, "C02.mmidpoint.offset-between-xy")
	} else {
		v.Assert(yo <= mo && mo <= xo, "C02.mmidpoint.offset-between-yx")
	}
	mt := m.Timestamp.UnixNano()
	if xt <= yt {
		v.Assert(xt <= mt && mt <= yt, "C02.mmidpoint.timestamp-between-xy")
	} else {
		v.Assert(yt <= mt && mt <= xt, "C02.mmidpoint.timestamp-between-yx")
	}
	v.Assert(m.Error == nil, "C02.mmidpoint.error-nil")
	v.Reach("C02.mmidpoint")
}

var errC02 = errT{}

type errT struct{}

func (errT) Error() string { return "x" }

func c02minputs(n int) []Measurement {
	ms := make([]Measurement, n)
	for i := 0; i < n; i++ {
		o, t := v.Int64("off"), v.Int64("ts")
		v.Assume(-c02lim < o && o < c02lim && 0 <= t && t < c02tlim)
		ms[i] = Measurement{Timestamp: v.TimeNs(t), Offset: time.Duration(o)}
		if v.Bool("haserr") {
			ms[i].Error = errC02
		}
	}
	return ms
}

func c02mRank(orig, ms []Measurement, n, k int, id string) {
	lt, le := 0, 0
	for j := 0; j < n; j++ {
		if orig[j].Offset < ms[k].Offset {
			lt++
		}
		if orig[j].Offset <= ms[k].Offset {
			le++
		}
	}
	v.Assert(lt <= k && k < le, id)
}

func c02mReordered(orig, ms []Measurement, n int) {
	for i := 0; i < n; i++ {
		in, out := false, false
		for j := 0; j < n; j++ {
			in = in || ms[j] == orig[i]
			out = out || orig[j] == ms[i]
		}
		v.Assert(in && out, "C02.m.slice-only-reordered")
	}
}

func c02mFTM(n int) {
	ms := c02minputs(n)
	lo, hi := v.Int64("lo"), v.Int64("hi")
	v.Assume(lo <= hi)
	good := 0
	for i := 0; i < n; i++ {
		if lo <= int64(ms[i].Offset) && int64(ms[i].Offset) <= hi {
			good++
		}
	}
	f := (n - 1) / 3
	v.Assume(good >= n-f)
	orig := make([]Measurement, n)
	copy(orig, ms)
	m := FaultTolerantMidpoint(ms)
	mo := int64(m.Offset)
	v.Assert(lo <= mo && mo <= hi, "C02.mftm.within-correct-range")
	v.Assert(m.Error == nil, "C02.mftm.error-nil")
	c02mReordered(orig, ms, n)
	c02mRank(orig, ms, n, f, "C02.mftm.rank-lo")
	c02mRank(orig, ms, n, n-1-f, "C02.mftm.rank-hi")
	a, b := ms[f], ms[n-1-f]
	v.Assert(mo == int64(a.Offset)+(int64(b.Offset)-int64(a.Offset))/2, "C02.mftm.is-midpoint-of-ranked")
	mt, at, bt := m.Timestamp.UnixNano(), a.Timestamp.UnixNano(), b.Timestamp.UnixNano()
	v.Assert(at <= mt && mt <= bt || bt <= mt && mt <= at, "C02.mftm.timestamp-between-selected")
	v.Reach("C02.mftm")
}

func c02mMedian(n int) {
	ms := c02minputs(n)
	mn, mx := int64(ms[0].Offset), int64(ms[0].Offset)
	for i := 1; i < n; i++ {
		if int64(ms[i].Offset) < mn {
			mn = int64(ms[i].Offset)
		}
		if int64(ms[i].Offset) > mx {
			mx = int64(ms[i].Offset)
		}
	}
	orig := make([]Measurement, n)
	copy(orig, ms)
	m := Median(ms)
	mo := int64(m.Offset)
	v.Assert(mn <= mo && mo <= mx, "C02.mmedian.within-min-max")
	v.Assert(m.Error == nil, "C02.mmedian.error-nil")
	c02mReordered(orig, ms, n)
	if n%2 != 0 {
		c02mRank(orig, ms, n, n/2, "C02.mmedian.rank-mid")
		v.Assert(mo == int64(ms[n/2].Offset) && m.Timestamp.Equal(ms[n/2].Timestamp), "C02.mmedian.is-ranked")
	} else {
		c02mRank(orig, ms, n, n/2-1, "C02.mmedian.rank-lo")
		c02mRank(orig, ms, n, n/2, "C02.mmedian.rank-hi")
		a, b := ms[n/2-1], ms[n/2]
		v.Assert(mo == int64(a.Offset)+(int64(b.Offset)-int64(a.Offset))/2, "C02.mmedian.is-midpoint-of-ranked")
		mt, at, bt := m.Timestamp.UnixNano(), a.Timestamp.UnixNano(), b.Timestamp.UnixNano()
		v.Assert(at <= mt && mt <= bt || bt <= mt && mt <= at, "C02.mmedian.timestamp-between-selected")
	}
	v.Reach("C02.mmedian")
}

func VerifC02MEmpty() {
	v.Assert(v.Panics(func() { FaultTolerantMidpoint(nil) }), "C02.mftm.empty-panics")
	v.Assert(v.Panics(func() { Median([]Measurement{}) }), "C02.mmedian.empty-panics")
	v.Reach("C02.mempty")
}

func VerifC02MFTM1() { c02mFTM(1) }
func VerifC02MFTM2() { c02mFTM(2) }
func VerifC02MFTM3() { c02mFTM(3) }
func VerifC02MFTM4() { c02mFTM(4) }
func VerifC02MFTM5() { c02mFTM(5) }
func VerifC02MFTM6() { c02mFTM(6) }
func VerifC02MFTM7() { c02mFTM(7) }
func VerifC02MFTM8() { c02mFTM(8) }

func VerifC02MMedian1() { c02mMedian(1) }
func VerifC02MMedian2() { c02mMedian(2) }
func VerifC02MMedian3() { c02mMedian(3) }
func VerifC02MMedian4() { c02mMedian(4) }
func VerifC02MMedian5() { c02mMedian(5) }
func VerifC02MMedian6() { c02mMedian(6) }
