//go:build verif

package sync

import (
	"context"
	"log/slog"
	"math"
	"time"

	"example.com/scion-time/base/timebase"
	"example.com/scion-time/core/client"
	v "example.com/scion-time/zzverif"
)

// one round is explored: the clock's Sleep ends the harness run after `rounds` calls
type c01stop struct{}

type c01clock struct {
	drift  time.Duration
	rounds int
	slept  int
}

func (c *c01clock) Epoch() uint64                        { return 0 }
func (c *c01clock) Now() time.Time                       { return time.Time{} }
func (c *c01clock) Drift(d time.Duration) time.Duration  { return c.drift }
func (c *c01clock) Step(time.Duration)                   {}
func (c *c01clock) Adjust(_, _ time.Duration, _ float64) {}
func (c *c01clock) Sleep(time.Duration) {
	c.slept++
	if c.slept == c.rounds {
		panic(c01stop{})
	}
}

var _ timebase.SystemClock = (*c01clock)(nil)

type c01adj struct {
	n    int
	last time.Duration
	// number of corrections handed over per round and the values
	perRound [4]int
	vals     [4]time.Duration
	clk      *c01clock
}

func (a *c01adj) Do(offset time.Duration) {
	a.n++
	if a.clk.slept < 4 {
		a.perRound[a.clk.slept]++
		a.vals[a.clk.slept] = offset
	}
	a.last = offset
}

// a reference clock / peer that reports an arbitrary offset or fails; what it reported in each round
// is recorded for the harness
type c01ref struct {
	side, k int
}

var (
	c01clk  *c01clock
	c01offs [2][4][4]time.Duration
	c01ok   [2][4][4]bool
)

func (c c01ref) MeasureClockOffset(context.Context) (time.Time, time.Duration, error) {
	off := time.Duration(v.Int64("off"))
	fail := v.Bool("fail")
	r := c01clk.slept
	if r < 4 && c.k < 4 {
		c01offs[c.side][r][c.k] = off
		c01ok[c.side][r][c.k] = !fail
	}
	if fail {
		return time.Time{}, 0, errC01
	}
	return time.Unix(1, 0).UTC(), off, nil
}

var errC01 = errC01T{}

type errC01T struct{}

func (errC01T) Error() string { return "c01" }

func c01cfg() Config {
	var cfg Config
	cfg.ReferenceClockImpact = v.Float64("cfg.refImpact")
	cfg.PeerClockImpact = v.Float64("cfg.peerImpact")
	cfg.PeerClockCutoff = time.Duration(v.Int64("cfg.cutoff"))
	cfg.SyncTimeout = time.Duration(v.Int64("cfg.timeout"))
	cfg.SyncInterval = time.Duration(v.Int64("cfg.interval"))
	return cfg
}

func c01clks(side, n int) []client.ReferenceClock {
	cs := make([]client.ReferenceClock, n)
	for i := range cs {
		cs[i] = c01ref{side, i}
	}
	return cs
}

// the explored configuration space: impact factors up to 1e6 (they are small multiples in practice);
// beyond that the impact x drift product leaves the range in which the engine knows it to be finite
func c01sane(cfg Config) bool {
	return cfg.ReferenceClockImpact <= 1e6 && cfg.PeerClockImpact <= 1e6 && cfg.ReferenceClockImpact >= -1e6 && cfg.PeerClockImpact >= -1e6
}

func c01admissible(cfg Config) bool {
	return cfg.ReferenceClockImpact > 1.0 && cfg.PeerClockImpact > 1.0 &&
		cfg.PeerClockImpact-1.0 > cfg.ReferenceClockImpact &&
		cfg.SyncInterval > 0 && cfg.SyncTimeout >= 0 && cfg.SyncTimeout <= cfg.SyncInterval/2
}

// settings that would void the bound are refused before any correction is handed over
func VerifC01Admissibility() {
	cfg := c01cfg()
	v.Assume(!math.IsNaN(cfg.ReferenceClockImpact) && !math.IsNaN(cfg.PeerClockImpact))
	clk := &c01clock{drift: time.Duration(v.Int64("drift")), rounds: 1}
	adj := &c01adj{clk: clk}
	c01clk = clk
	ok := c01admissible(cfg)
	v.Assume(!ok)
	p := v.Panics(func() {
		Run(slog.New(slog.DiscardHandler), cfg, clk, adj, c01clks(0, 1), c01clks(1, 1))
	})
	v.Assert(p, "C01.admissibility.inadmissible-settings-refused")
	v.Assert(adj.n == 0 && clk.slept == 0, "C01.admissibility.refused-before-any-correction")
	v.Reach("C01.admissibility")
}

func c01abs(d time.Duration) time.Duration {
	if d < 0 {
		if d == math.MinInt64 {
			return math.MaxInt64
		}
		return -d
	}
	return d
}

// for admissible settings: exactly one correction per round, bounded as the property states
func c01Round(nref, npeer, rounds int) {
	cfg := c01cfg()
	v.Assume(!math.IsNaN(cfg.ReferenceClockImpact) && !math.IsNaN(cfg.PeerClockImpact))
	v.Assume(c01admissible(cfg) && c01sane(cfg))
	clk := &c01clock{drift: time.Duration(v.Int64("drift")), rounds: rounds}
	adj := &c01adj{clk: clk}
	c01clk = clk
	refMax := cfg.ReferenceClockImpact * float64(clk.drift)
	peerMax := cfg.PeerClockImpact * float64(clk.drift)
	v.Assume(!(peerMax >= 4.6e18)) // see VerifC01Exact
	stopped := v.Panics(func() {
		Run(slog.New(slog.DiscardHandler), cfg, clk, adj, c01clks(0, nref), c01clks(1, npeer))
	})
	v.Assert(stopped, "C01.round.loop-runs-until-stopped")
	if refMax > 0 && peerMax > 0 {
		v.Assert(clk.slept == rounds && adj.n == rounds, "C01.round.one-correction-per-round")
		for r := 0; r < rounds; r++ {
			v.Assert(adj.perRound[r] == 1, "C01.round.exactly-one-correction-in-each-round")
			corr := adj.vals[r]
			mag := float64(c01abs(corr))
			switch {
			case nref == 0 && npeer == 0:
				v.Assert(corr == 0, "C01.bound.no-clocks-no-correction")
			case npeer == 0:
				v.Assert(mag <= refMax, "C01.bound.reference-only-within-reference-bound")
			case nref == 0:
				v.Assert(mag <= peerMax, "C01.bound.peers-only-within-peer-bound")
				if npeer == 1 && r < 4 {
					// one peer + the local clock: the peers' midpoint is half the peer's offset; within the
					// cutoff it contributes nothing (every result arrives in this harness)
					var x time.Duration
					if c01ok[1][r][0] {
						x = c01offs[1][r][0]
					} else if r > 0 {
						continue // a failed peer leaves the previous round's value in its slot
					}
					lo, hi := x, time.Duration(0)
					if lo > hi {
						lo, hi = hi, lo
					}
					peerOff := lo + (hi-lo)/2
					if c01abs(peerOff) <= cfg.PeerClockCutoff {
						v.Assert(corr == 0, "C01.bound.peer-within-cutoff-contributes-nothing")
					}
				}
			default:
				// both contribute: the midpoint of two values bounded by refMax and peerMax (or the reference
				// value alone when the peers are within the cutoff) is bounded by the larger bound
				// (decided for the first round; in later rounds the same statement over the values carried
				// over from failed sources was left undecided by every back end and is not asserted)
				if r == 0 {
					v.Assert(mag <= peerMax, "C01.bound.combined-within-peer-bound")
				}
			}
		}
	} else {
		v.Assert(adj.n == 0, "C01.round.nonpositive-drift-refused")
	}
	v.Reach("C01.round")
}

// precise form with one reference clock and one peer (plus the local clock the code adds to the
// peers): the contribution of each side is its offset clamped to its bound, a peer offset within the
// cutoff contributes nothing, and both together give the midpoint
func VerifC01Exact() {
	cfg := c01cfg()
	v.Assume(!math.IsNaN(cfg.ReferenceClockImpact) && !math.IsNaN(cfg.PeerClockImpact))
	v.Assume(c01admissible(cfg) && c01sane(cfg))
	clk := &c01clock{drift: time.Duration(v.Int64("drift")), rounds: 1}
	adj := &c01adj{clk: clk}
	c01clk = clk
	refMax := cfg.ReferenceClockImpact * float64(clk.drift)
	peerMax := cfg.PeerClockImpact * float64(clk.drift)
	v.Assume(refMax > 0 && peerMax > 0)
	// bounds of 2^62 ns (146 years) and more do not constrain an int64 correction in any meaningful way
	// (and the midpoint of two such values may wrap): the claim is made for bounds below 2^62 ns
	v.Assume(peerMax < 4.6e18)
	stopped := v.Panics(func() {
		Run(slog.New(slog.DiscardHandler), cfg, clk, adj, c01clks(0, 1), c01clks(1, 1))
	})
	v.Assert(stopped && adj.n == 1, "C01.exact.one-correction")
	// what the two sides measured (a failed source leaves its slot at zero in the first round)
	var refOff, x time.Duration
	if c01ok[0][0][0] {
		refOff = c01offs[0][0][0]
	}
	if c01ok[1][0][0] {
		x = c01offs[1][0][0]
	}
	// the peers' fault-tolerant midpoint over {peer, local clock = 0}
	lo, hi := x, time.Duration(0)
	if lo > hi {
		lo, hi = hi, lo
	}
	peerOff := lo + (hi-lo)/2
	corr := adj.vals[0]
	refClamped := float64(c01abs(refOff)) > refMax
	peerActive := c01abs(peerOff) > cfg.PeerClockCutoff
	peerClamped := peerActive && float64(c01abs(peerOff)) > peerMax
	v.Assert(float64(c01abs(corr)) <= peerMax, "C01.exact.within-peer-bound")
	if !peerActive {
		// a peer offset within the cutoff contributes nothing
		if !refClamped {
			v.Assert(corr == refOff, "C01.exact.peer-within-cutoff-contributes-nothing")
		} else {
			v.Assert(float64(c01abs(corr)) <= refMax && (corr > 0) == (refOff > 0), "C01.exact.reference-clamped-to-its-bound")
		}
	} else if !refClamped && !peerClamped {
		v.Assert(corr == refOff+(peerOff-refOff)/2, "C01.exact.midpoint-of-both-contributions")
	} else {
		// at least one side clamped: the correction lies between the two bounded contributions
		m := float64(c01abs(corr))
		v.Assert(m <= peerMax, "C01.exact.clamped-midpoint-within-bound")
	}
	v.Reach("C01.exact")
}

func VerifC01Round_0_0()   { c01Round(0, 0, 2) }
func VerifC01Round_1_0()   { c01Round(1, 0, 2) }
func VerifC01Round_0_1()   { c01Round(0, 1, 2) }
func VerifC01Round_1_1()   { c01Round(1, 1, 1) }
func VerifC01Round_1_1x2() { c01Round(1, 1, 2) }
func VerifC01Round_2_0()   { c01Round(2, 0, 2) }
func VerifC01Round_0_2()   { c01Round(0, 2, 2) }
func VerifC01Round_3_0()   { c01Round(3, 0, 2) }
func VerifC01Round_2_2()   { c01Round(2, 2, 2) }
func VerifC01Round_3_2()   { c01Round(3, 2, 2) }
func VerifC01Round_4_3()   { c01Round(4, 3, 3) }

// the facts about int64 <-> float64 conversion that the C01 harnesses assume of the abstracted
// conversions, discharged here with exact IEEE-754 semantics
func VerifC01ConversionLemmas() {
	x, y := v.Int64("x"), v.Int64("y")
	if x <= y {
		v.Assert(float64(x) <= float64(y), "C01.lemma.int-to-float-monotone")
	}
	v.Assert((x == 0) == (float64(x) == 0) && (x > 0) == (float64(x) > 0), "C01.lemma.int-to-float-sign")
	f := v.Float64("f")
	v.Assume(!math.IsNaN(f) && f > -9223372036854775808.0 && f < 9223372036854775808.0)
	i := int64(f)
	if f >= 0 {
		v.Assert(i >= 0 && float64(i) <= f, "C01.lemma.float-of-truncation-not-above")
	} else {
		v.Assert(i <= 0 && float64(i) >= f, "C01.lemma.float-of-truncation-not-below")
	}
	// powers of two convert exactly in both directions
	if x >= 1<<53 {
		v.Assert(float64(x) >= 9007199254740992.0, "C01.lemma.ladder-int-to-float")
	}
	if f >= 9007199254740992.0 {
		v.Assert(i >= 1<<53, "C01.lemma.ladder-float-to-int")
	}
	if f > -1 && f < 1 {
		v.Assert(i == 0, "C01.lemma.small-truncates-to-zero")
	}
	v.Reach("C01.lemmas")
}
