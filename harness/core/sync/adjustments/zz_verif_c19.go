//go:build verif

package adjustments

import (
	"log/slog"
	"math"
	"time"

	"example.com/scion-time/base/timebase"
	"example.com/scion-time/base/timemath"
	v "example.com/scion-time/zzverif"
)

type c19clock struct {
	epoch   uint64
	now     time.Time
	nstep   int
	stepArg time.Duration
	nadj    int
	adjOff  time.Duration
	adjDur  time.Duration
	adjFreq float64
}

func (c *c19clock) Epoch() uint64                     { return c.epoch }
func (c *c19clock) Now() time.Time                    { return c.now }
func (c *c19clock) Drift(time.Duration) time.Duration { return 0 }
func (c *c19clock) Sleep(time.Duration)               {}
func (c *c19clock) Step(o time.Duration)              { c.nstep++; c.stepArg = o }
func (c *c19clock) Adjust(o, d time.Duration, f float64) {
	c.nadj++
	c.adjOff, c.adjDur, c.adjFreq = o, d, f
}

var _ timebase.SystemClock = (*c19clock)(nil)

const c19lim = 1 << 61 // instants 1970..2043

func c19finite(x float64) bool { return !math.IsNaN(x) && !math.IsInf(x, 0) }

// arbitrary PLL state satisfying the invariant (mode <= 3; in mode 3 the gains are within the
// ranges NewPLL/Do establish; the integrator is finite)
func c19state(mode int) (*Pll, *c19clock) {
	clk := &c19clock{}
	clk.epoch = v.Uint64("clk.epoch")
	now := v.Int64("clk.now")
	v.Assume(0 <= now && now < c19lim)
	clk.now = v.TimeNs(now)
	l := NewPLL(slog.New(slog.DiscardHandler), clk)
	l.epoch = v.Uint64("l.epoch")
	l.mode = v.Uint64("l.mode")
	v.Assume(l.mode <= 3)
	if mode >= 0 {
		// one start-up stage at a time, same clock epoch
		v.Assume(l.mode == uint64(mode) && l.epoch == clk.epoch)
	} else {
		v.Assume(l.epoch != clk.epoch)
	}
	t0, t := v.Int64("l.t0"), v.Int64("l.t")
	v.Assume(0 <= t0 && t0 < c19lim && 0 <= t && t < c19lim)
	l.t0, l.t = v.TimeNs(t0), v.TimeNs(t)
	// the clock does not run backwards within one epoch (Do panics "unexpected clock behavior" otherwise)
	v.Assume(t0 <= now && t <= now)
	l.a, l.b, l.i = v.Float64("l.a"), v.Float64("l.b"), v.Float64("l.i")
	v.Assume(0 <= l.a && l.a <= 0.33 && 0 <= l.b && l.b <= 0.006)
	v.Assume(-1e100 <= l.i && l.i <= 1e100)
	return l, clk
}

func VerifC19Mode0()   { c19Do(0) }
func VerifC19Mode1()   { c19Do(1) }
func VerifC19Mode2()   { c19Do(2) }
func VerifC19Mode3()   { c19Do(3) }
func VerifC19Slew()    { c19Slew() }
func VerifC19Restart() { c19Do(-1) }

func c19Do(mode int) {
	l, clk := c19state(mode)
	offset := v.Int64("offset")
	weight := v.Float64("weight")
	if mode >= 2 {
		// the gain / integrator / frequency clauses are claimed for weights that are numbers; while the
		// loop is starting up (modes 0, 1, restart) a NaN weight is a weight that is not above 3
		v.Assume(!math.IsNaN(weight))
	}
	modeBefore, epochBefore := l.mode, l.epoch
	t0Before, tBefore := l.t0, l.t
	restarted := epochBefore != clk.epoch
	eff := modeBefore
	if restarted {
		eff = 0
	}
	l.Do(time.Duration(offset), weight)

	v.Assert(clk.nstep <= 1 && clk.nadj <= 1, "C19.at-most-one-actuation-of-each-kind")
	if clk.nstep == 1 {
		v.Assert(eff == 1, "C19.step.only-while-awaiting-initial-step")
		v.Assert(clk.now.Sub(t0Before) > 2*time.Second, "C19.step.only-later-than-2s-after-start")
		v.Assert(weight > 3, "C19.step.only-with-weight-above-3")
		v.Assert(offset > 1000000 || offset < -1000000, "C19.step.only-for-offset-above-1ms")
		v.Assert(int64(clk.stepArg) == offset, "C19.step.by-exactly-the-measured-offset")
	}
	if eff == 3 {
		v.Assert(clk.nstep == 0, "C19.tracking.never-steps")
	}
	if eff == 1 && clk.now.Sub(t0Before) > 2*time.Second && weight > 3 && (offset > 1000000 || offset < -1000000) {
		v.Assert(clk.nstep == 1, "C19.step.happens-when-due")
	}
	if clk.nadj == 1 {
		v.Assert(eff == 3, "C19.adjust.only-when-tracking")
		v.Assert(clk.adjDur > 0, "C19.adjust.duration-positive")
		// slew: at most 500 ppm of the elapsed whole seconds (in the implementation's own float ->
		// Duration conversion, which the engine knows to be monotone)
		d := math.Ceil(clk.now.Sub(tBefore).Seconds())
		hi, lo := timemath.Duration(d*500e-6), timemath.Duration(d*-500e-6)
		v.Assert(lo <= clk.adjOff && clk.adjOff <= hi, "C19.adjust.slew-at-most-500ppm")
		v.Assert(clk.adjDur == timemath.Duration(d), "C19.adjust.duration-is-elapsed-whole-seconds")
		v.Assert(c19finite(clk.adjFreq), "C19.adjust.frequency-finite")
	}
	if restarted {
		v.Assert(l.mode == 1 && l.t0.Equal(clk.now) && clk.nstep == 0 && clk.nadj == 0, "C19.epoch-change-restarts-startup")
	}
	v.Assert(l.mode <= 3, "C19.inv.mode-at-most-3")
	v.Assert(l.mode == eff || l.mode == eff+1, "C19.inv.mode-advances-by-at-most-one")
	v.Assert(l.epoch == clk.epoch && l.t.Equal(clk.now), "C19.inv.epoch-and-time-recorded")
	if l.mode == 3 {
		v.Assert(0 <= l.a && l.a <= 0.33 && 0 <= l.b && l.b <= 0.006, "C19.inv.gains-in-range")
	}
	v.Assert(c19finite(l.i), "C19.inv.integrator-finite")
	v.Reach("C19.do")
}

// from NewPLL: the first call only records the start, whatever the measurement
func VerifC19Fresh() {
	clk := &c19clock{}
	clk.epoch = v.Uint64("clk.epoch")
	now := v.Int64("clk.now")
	v.Assume(0 <= now && now < c19lim)
	clk.now = v.TimeNs(now)
	l := NewPLL(slog.New(slog.DiscardHandler), clk)
	l.Do(time.Duration(v.Int64("offset")), v.Float64("weight"))
	v.Assert(clk.nstep == 0 && clk.nadj == 0, "C19.fresh.first-call-does-not-actuate")
	v.Assert(l.mode == 1 || l.mode == 0 && false, "C19.fresh.awaiting-step-after-first-call")
	v.Reach("C19.fresh")
}

// the slew bound, with exact floating point (gains of the low-weight branch): the offset handed to
// Adjust is at most 500 ppm of the duration handed to it (plus float rounding: 1 ppm of the bound + 2 ns)
func c19Slew() {
	l, clk := c19state(3)
	offset := v.Int64("offset")
	weight := v.Float64("weight")
	v.Assume(weight < 50)
	// elapsed time since the previous update below 2^40 ns (18 min)
	v.Assume(clk.now.Sub(l.t) < 1<<40)
	l.Do(time.Duration(offset), weight)
	if clk.nadj == 1 {
		o := int64(clk.adjOff)
		if o < 0 {
			o = -o
		}
		bound := int64(clk.adjDur) / 2000
		v.Assert(o <= bound+bound/1000000+2, "C19.adjust.slew-at-most-500ppm")
	}
	v.Reach("C19.slew")
}
