//go:build verif

package server

import v "example.com/scion-time/zzverif"

var c09m *ipServerMetrics

func c09metrics() *ipServerMetrics {
	if c09m == nil || !v.Native() {
		c09m = newIPServerMetrics()
	}
	return c09m
}
