//go:build verif

package server

import (
	"container/heap"
	"time"

	"example.com/scion-time/base/timebase"
	coretimebase "example.com/scion-time/core/timebase"
	"example.com/scion-time/net/ntp"
	v "example.com/scion-time/zzverif"
)

// symClock: the local clock is an arbitrary function of the call number
type symClock struct{}

func (symClock) Epoch() uint64                        { return v.Uint64("clk.epoch") }
func (symClock) Now() time.Time                       { return c06time("clk.now") }
func (symClock) Drift(time.Duration) time.Duration    { return 0 }
func (symClock) Step(time.Duration)                   {}
func (symClock) Adjust(_, _ time.Duration, _ float64) {}
func (symClock) Sleep(time.Duration)                  {}

var _ timebase.SystemClock = symClock{}

// all instants inside NTP era 0 after 1970 (comparisons of Time64 values across an era
// boundary are outside the claim), with room for the +1 ns bumps
const c06MaxSec = 2085978496 - 2

func c06time(name string) time.Time {
	sec, ns := v.Int64(name+".sec"), v.Int64(name+".ns")
	v.Assume(0 <= sec && sec < c06MaxSec && 0 <= ns && ns < 1000000000)
	return time.Unix(sec, ns).UTC()
}

// an arbitrary stored stamp (any seconds / fraction field)
func c06t64(name string) ntp.Time64 {
	return ntp.Time64{Seconds: v.Uint32(name + ".s"), Fraction: v.Uint32(name + ".f")}
}

// c06item builds an arbitrary per-client record satisfying the representation invariant:
// 0 <= len <= maxLen, receive stamps pairwise distinct, every recorded transmit stamp later
// than its receive stamp, qval = the newest receive stamp.
func c06item(name, key string, maxLen int) *tssItem {
	return c06itemP(name, key, maxLen, false)
}

// with pending = true one exchange (chosen by the solver) is still waiting for its transmit
// stamp: its recorded software stamp is arbitrary (it is not later than the receive stamp when
// the clock reading at handling time was not later than the packet's receive time)
func c06itemP(name, key string, maxLen int, pending bool) *tssItem {
	it := &tssItem{key: key}
	n := v.Int(name + ".len")
	v.Assume(0 <= n && n <= maxLen)
	it.len = n
	for i := 0; i < maxLen; i++ {
		if i < n {
			it.buf[i].rxt = c06t64(name + ".rxt")
			it.buf[i].txt = c06t64(name + ".txt")
			if !(pending && v.Bool(name+".pending")) {
				v.Assume(it.buf[i].txt.After(it.buf[i].rxt))
			}
			for j := 0; j < i; j++ {
				v.Assume(it.buf[j].rxt != it.buf[i].rxt)
			}
			if i == 0 || it.buf[i].rxt.After(it.qval) {
				it.qval = it.buf[i].rxt
			}
		}
	}
	return it
}

func c06setup(id, other string, maxLen int) (cur, oth *tssItem, present bool) {
	return c06setupP(id, other, maxLen, false)
}

func c06setupP(id, other string, maxLen int, pending bool) (cur, oth *tssItem, present bool) {
	tss = make(map[string]*tssItem)
	tssQ = make(tssQueue, 0, 4)
	present = v.Bool("present")
	oth = c06item("other", other, 1)
	v.Assume(oth.len == 1)
	tss[other] = oth
	heap.Push(&tssQ, oth)
	if present {
		cur = c06itemP("cur", id, maxLen, pending)
		v.Assume(cur.len >= 1)
		tss[id] = cur
		heap.Push(&tssQ, cur)
	}
	return
}

var c06clockRegistered bool

func coretimebaseRegister(c timebase.SystemClock) { coretimebase.RegisterClock(c) }

func c06clock() {
	if !c06clockRegistered {
		coretimebase.RegisterClock(symClock{})
		c06clockRegistered = true
	}
}

func c06HandleRequest(maxLen int) { c06Handle(maxLen, false) }

// full = true: the client's record is at capacity and the packet's receive stamp collides with nothing
// on record (the uniqueness loop makes exactly one pass: checked by its unwinding obligation), which
// keeps the capacity case - replacement of the oldest exchange - cheap enough for the quick tier
func c06Handle(maxLen int, full bool) {
	c06clock()
	id, other := v.String("client"), v.String("other")
	v.Assume(id != other)
	cur, oth, present := c06setup(id, other, maxLen)
	var before tssItem
	if present {
		before = *cur
	}
	othBefore := *oth

	var req, resp ntp.Packet
	v.Havoc("req", &req)
	rxt0 := c06time("rxt")
	rxt := rxt0
	if full {
		v.Assume(present && before.len == maxLen)
		r0 := ntp.Time64FromTime(rxt0)
		for i := 0; i < maxLen; i++ {
			v.Assume(before.buf[i].rxt != r0)
		}
	}
	var txt time.Time
	handleRequest(id, &req, &rxt, &txt, &resp)

	rxt64 := ntp.Time64FromTime(rxt)
	// (1) receive stamp of this request, distinct from everything on record for the client
	v.Assert(resp.ReceiveTime == rxt64, "C06.reply.rx-is-receive-stamp")
	v.Assert(!rxt.Before(rxt0), "C06.reply.rx-never-earlier-than-packet-stamp")
	if present {
		for i := 0; i < maxLen; i++ {
			if i < before.len {
				v.Assert(before.buf[i].rxt != resp.ReceiveTime, "C06.reply.rx-distinct-from-record")
			}
		}
	} else {
		v.Assert(rxt.Equal(rxt0), "C06.reply.rx-unchanged-without-record")
	}
	// which earlier exchange (if any) does the request refer to
	match := -1
	if present {
		for i := 0; i < maxLen; i++ {
			if i < before.len && before.buf[i].rxt == req.OriginTime {
				match = i
			}
		}
	}
	interleaved := req.ReceiveTime != req.TransmitTime && match != -1
	if interleaved {
		v.Assert(resp.OriginTime == req.ReceiveTime, "C06.interleaved.origin-is-request-rx")
		v.Assert(resp.TransmitTime == before.buf[match].txt, "C06.interleaved.tx-is-recorded-tx")
		v.Assert(resp.TransmitTime.After(before.buf[match].rxt), "C06.interleaved.tx-after-its-rx")
	} else {
		v.Assert(resp.OriginTime == req.TransmitTime, "C06.basic.origin-is-request-tx")
		v.Assert(resp.TransmitTime == ntp.Time64FromTime(txt), "C06.basic.tx-is-clock-reading")
		// the clock reading handed back is the one taken at handling time unless a collision forced a bump
		if txt.After(rxt) {
			v.Assert(resp.TransmitTime.After(resp.ReceiveTime), "C06.basic.tx-after-rx-when-clock-later")
		}
	}
	// header
	v.Assert(resp.Version() == 4 && resp.Mode() == ntp.ModeServer && resp.Stratum == 1 && resp.LeapIndicator() == 0, "C06.reply.header-v4-server-stratum1")
	v.Assert(resp.Poll == req.Poll, "C06.reply.poll-echoed")
	// (6) the other client's record is untouched
	v.Assert(oth.key == othBefore.key && oth.len == othBefore.len && oth.buf == othBefore.buf && oth.qval == othBefore.qval, "C06.isolation.other-client-untouched")
	got, ok := tss[other]
	v.Assert(ok && got == oth, "C06.isolation.other-client-still-registered")
	// the exchange is on record afterwards with the transmit stamp that was (or will be) sent
	now, ok2 := tss[id]
	v.Assert(ok2, "C06.record.client-registered")
	if ok2 {
		found := false
		for i := 0; i < tssItemCap; i++ {
			if i < now.len && now.buf[i].rxt == resp.ReceiveTime {
				found = true
				v.Assert(now.buf[i].txt == ntp.Time64FromTime(txt), "C06.record.tx-recorded")
			}
		}
		v.Assert(found, "C06.record.exchange-recorded")
		v.Assert(1 <= now.len && now.len <= tssItemCap, "C06.record.len-range")
		for i := 0; i < tssItemCap; i++ {
			for j := 0; j < i; j++ {
				if i < now.len {
					v.Assert(now.buf[i].rxt != now.buf[j].rxt, "C06.record.rx-stay-distinct")
				}
			}
		}
	}
	v.Reach("C06.handle")
}

func VerifC06Handle2()    { c06HandleRequest(2) }
func VerifC06Handle4()    { c06HandleRequest(4) }
func VerifC06Handle8()    { c06HandleRequest(8) }
func VerifC06HandleFull() { c06Handle(tssItemCap, true) }

// updateTXTimestamp from an arbitrary record: the kernel transmit stamp replaces the software one;
// an exchange whose software stamp is passed back unchanged (no kernel stamp) is dropped
func c06Update(maxLen int) {
	c06clock()
	id, other := v.String("client"), v.String("other")
	v.Assume(id != other)
	cur, oth, present := c06setupP(id, other, maxLen, true)
	var before tssItem
	if present {
		before = *cur
	}
	othBefore := *oth
	rxt := c06time("rxt")
	txtIn := c06time("txt")
	rxt64 := ntp.Time64FromTime(rxt)
	txtIn64 := ntp.Time64FromTime(txtIn)
	txt := txtIn
	updateTXTimestamp(id, rxt, &txt)

	match := -1
	if present {
		for i := 0; i < maxLen; i++ {
			if i < before.len && before.buf[i].rxt == rxt64 {
				match = i
			}
		}
	}
	now, ok := tss[id]
	if match == -1 {
		v.Assert(ok == present, "C06.update.nomatch-registration-unchanged")
		if present {
			v.Assert(ok && now == cur && cur.len == before.len && cur.buf == before.buf && cur.qval == before.qval, "C06.update.nomatch-record-unchanged")
		}
	} else if before.buf[match].txt != txtIn64 {
		// a transmit stamp different from the recorded software stamp was read: it is recorded,
		// raised above the receive stamp if necessary
		v.Assert(ok && now == cur && cur.len == before.len, "C06.update.kernel-stamp-keeps-exchange")
		want := txtIn
		if !rxt.Before(txtIn) {
			want = rxt.Add(1)
		}
		for i := 0; i < maxLen; i++ {
			if i < before.len {
				v.Assert(cur.buf[i].rxt == before.buf[i].rxt, "C06.update.rx-stamps-unchanged")
				if i == match {
					v.Assert(cur.buf[i].txt == ntp.Time64FromTime(want), "C06.update.kernel-stamp-recorded")
					v.Assert(cur.buf[i].txt.After(cur.buf[i].rxt), "C06.update.recorded-tx-after-rx")
				} else {
					v.Assert(cur.buf[i].txt == before.buf[i].txt, "C06.update.other-exchanges-unchanged")
				}
			}
		}
	} else {
		// the software stamp came back: no transmit stamp could be read, the exchange is dropped
		if before.len == 1 {
			v.Assert(!ok, "C06.update.unstamped-last-exchange-unregisters-client")
		} else {
			v.Assert(ok && now == cur && cur.len == before.len-1, "C06.update.unstamped-exchange-dropped")
			for i := 0; i < maxLen; i++ {
				if ok && i < cur.len {
					v.Assert(cur.buf[i].rxt != rxt64, "C06.update.unstamped-exchange-not-on-record")
					// what remains was on record before, unchanged
					found := false
					for j := 0; j < maxLen; j++ {
						if j < before.len && before.buf[j] == cur.buf[i] {
							found = true
						}
					}
					v.Assert(found, "C06.update.remaining-exchanges-unchanged")
				}
			}
		}
	}
	v.Assert(oth.key == othBefore.key && oth.len == othBefore.len && oth.buf == othBefore.buf && oth.qval == othBefore.qval, "C06.update.other-client-untouched")
	got, ok3 := tss[other]
	v.Assert(ok3 && got == oth, "C06.update.other-client-still-registered")
	v.Reach("C06.update")
}

func VerifC06Update2() { c06Update(2) }
func VerifC06Update4() { c06Update(4) }
func VerifC06Update8() { c06Update(8) }
