//go:build verif

package server

import (
	"bytes"
	"context"
	"log/slog"
	"net"
	"time"

	"example.com/scion-time/net/ntp"
	"example.com/scion-time/net/nts"
	"example.com/scion-time/net/ntske"
	v "example.com/scion-time/zzverif"
)

// an authenticated NTS request with one cookie and nph placeholders, built by the real client code from
// cookies issued by the real server code, handed to the real IP listener: exactly one reply, which the
// client can authenticate, carrying one fresh cookie per cookie / placeholder requested, pairwise
// different, each opening under a currently valid server key to the session keys
func c11Server(nph int, rotated bool) {
	c06clock()
	v.SetNow(time.Unix(v.SynctestEpoch, 0).UTC())
	tss = make(map[string]*tssItem)
	tssQ = make(tssQueue, 0, 8)
	provider := ntske.NewProvider()
	key := provider.Current()
	c2s, s2c := v.Bytes("c2s", 32), v.Bytes("s2c", 32)
	sc := ntske.ServerCookie{Algo: ntske.AES_SIV_CMAC_256, C2S: c2s, S2C: s2c}
	var data ntske.Data
	data.C2sKey, data.S2cKey, data.Algo = c2s, s2c, ntske.AES_SIV_CMAC_256
	for i := 0; i < 8-nph; i++ {
		ec, err := sc.EncryptWithNonce(key.Value, key.ID)
		v.Assume(err == nil)
		data.Cookie = append(data.Cookie, ec.Encode())
	}
	if rotated {
		// the client's cookies are 25 h old: the server key they were issued under is still valid (3 days),
		// but the server rotates to a new key before it answers
		ntske.VerifProviderAge(provider, 25*time.Hour)
	}
	var ntpreq ntp.Packet
	ntpreq.SetVersion(4)
	ntpreq.SetMode(ntp.ModeClient)
	ntpreq.TransmitTime = ntp.Time64{Seconds: v.Uint32("req.tx.s"), Fraction: v.Uint32("req.tx.f")}
	var req []byte
	ntp.EncodePacket(&req, &ntpreq)
	ntsreq, uid := nts.NewRequestPacket(data)
	nts.EncodePacket(&req, &ntsreq)

	c09.k, c09.nreads, c09.nwrites, c09.writeErr = 1, 0, 0, false
	d := &c09.dg[0]
	d.data, d.n, d.flags, d.readErr = req, len(req), 0, false
	d.src = c09addr("dg.src")
	if v.Native() {
		c09RunNative(1, provider)
	} else {
		stopped := v.Panics(func() {
			runIPServer(context.Background(), slog.New(slog.DiscardHandler), c09metrics(), &net.UDPConn{}, "", 0, provider)
		})
		v.Assert(stopped, "C11.server.listener-keeps-running")
	}
	v.Assert(c09.nwrites == 1, "C09.listener.exactly-one-reply-per-valid-nts-request")
	if c09.nwrites == 1 {
		reply := c09.written[0]
		v.Assert(len(reply) <= nts.MaxPacketLen, "C11.server.reply-within-max-packet-size")
		var ntpresp ntp.Packet
		v.Assert(ntp.DecodePacket(&ntpresp, reply) == nil && ntpresp.OriginTime == ntpreq.TransmitTime && ntpresp.Mode() == ntp.ModeServer, "C11.server.reply-answers-the-request")
		var f ntske.Fetcher
		var ntsresp nts.Packet
		err := nts.DecodePacket(&ntsresp, reply)
		v.Assert(err == nil, "C11.server.reply-well-formed")
		if err == nil {
			v.Assert(nts.ProcessResponse(reply, s2c, &f, &ntsresp, uid) == nil, "C11.server.requester-can-authenticate-the-reply")
			got := ntske.VerifFetcherCookies(&f)
			v.Assert(len(got) == 1+nph, "C11.server.one-fresh-cookie-per-cookie-or-placeholder")
			for i := range got {
				for j := 0; j < i; j++ {
					v.Assert(!bytes.Equal(got[i], got[j]), "C11.server.fresh-cookies-pairwise-different")
				}
				for j := range data.Cookie {
					v.Assert(!bytes.Equal(got[i], data.Cookie[j]), "C11.server.fresh-cookies-differ-from-the-old-ones")
				}
				var ec ntske.EncryptedServerCookie
				ok := ec.Decode(got[i]) == nil
				v.Assert(ok, "C11.server.fresh-cookie-decodes")
				if ok {
					k, valid := provider.Get(int(ec.ID))
					v.Assert(valid, "C11.server.fresh-cookie-under-a-currently-valid-key")
					if valid {
						pc, err := ec.Decrypt(k.Value)
						v.Assert(err == nil && bytes.Equal(pc.C2S, c2s) && bytes.Equal(pc.S2C, s2c) && pc.Algo == ntske.AES_SIV_CMAC_256, "C11.server.fresh-cookie-opens-to-the-session-keys")
					}
				}
			}
		}
	}
	v.Reach("C11.server")
}

func VerifC11Server0()  { c11Server(0, false) }
func VerifC11Server2()  { c11Server(2, false) }
func VerifC11Server1R() { c11Server(1, true) }
