//go:build verif

package server

import (
	"container/heap"
	"fmt"
	"time"

	"example.com/scion-time/net/ntp"
	v "example.com/scion-time/zzverif"
)

func c07heapOK(id string) {
	for i := 0; i < len(tssQ); i++ {
		v.Assert(tssQ[i] != nil && tssQ[i].qidx == i, id+".index-backpointers")
		if i > 0 {
			v.Assert(!tssQ[i].qval.Before(tssQ[(i-1)/2].qval), id+".heap-order")
		}
	}
}

// the activity index stays a valid priority queue under each of its four operations (real container/heap,
// real tssQueue methods, k items with arbitrary keys)
func c07Heap(k int) {
	tssQ = make(tssQueue, 0, 8)
	items := make([]*tssItem, k)
	for i := 0; i < k; i++ {
		items[i] = &tssItem{key: fmt.Sprintf("k%d", i), qval: c06t64("q")}
		heap.Push(&tssQ, items[i])
	}
	c07heapOK("C07.heap.after-pushes")
	op := v.Int("op")
	v.Assume(0 <= op && op <= 2)
	j := v.Int("j")
	v.Assume(0 <= j && j < k)
	switch op {
	case 0: // pop: returns a minimum
		x := heap.Pop(&tssQ).(*tssItem)
		v.Assert(len(tssQ) == k-1, "C07.heap.pop-shrinks")
		for i := 0; i < len(tssQ); i++ {
			v.Assert(!tssQ[i].qval.Before(x.qval), "C07.heap.pop-returns-minimum")
		}
	case 1: // key change + fix
		items[j].qval = c06t64("newq")
		heap.Fix(&tssQ, items[j].qidx)
		v.Assert(len(tssQ) == k, "C07.heap.fix-keeps-size")
	case 2: // remove
		heap.Remove(&tssQ, items[j].qidx)
		v.Assert(len(tssQ) == k-1, "C07.heap.remove-shrinks")
		for i := 0; i < len(tssQ); i++ {
			v.Assert(tssQ[i] != items[j], "C07.heap.removed-item-gone")
		}
	}
	c07heapOK("C07.heap.after-operation")
	v.Reach("C07.heap")
}

func VerifC07Heap2() { c07Heap(2) }
func VerifC07Heap3() { c07Heap(3) }
func VerifC07Heap4() { c07Heap(4) }
func VerifC07Heap5() { c07Heap(5) }

// a full store (2^20 clients): a request from an unknown client evicts the least recently active client,
// and only if that client is not more recent than the request; otherwise the newcomer is served
// statelessly. The 2^20 - 2 clients that are not involved are abstract (symbolic run) / dummies (native).
func VerifC07Eviction() {
	c06clock()
	id, a, b := v.String("client"), v.String("a"), v.String("b")
	v.Assume(id != a && id != b && a != b)
	tss = make(map[string]*tssItem)
	full := v.Bool("full")
	extra := tssCap - 2
	if !full {
		extra = tssCap - 3
	}
	if v.Native() {
		tssQ = make(tssQueue, 0, tssCap)
	} else {
		tssQ = make(tssQueue, 0, 4)
	}
	ia, ib := c06item("a", a, 1), c06item("b", b, 1)
	v.Assume(ia.len == 1 && ib.len == 1)
	// a is the least recently active client of the whole store
	v.Assume(!ib.qval.Before(ia.qval))
	tss[a], tss[b] = ia, ib
	heap.Push(&tssQ, ia)
	heap.Push(&tssQ, ib)
	if v.Native() {
		for i := 0; i < extra; i++ {
			it := &tssItem{key: fmt.Sprintf("dummy-%d", i), len: 1, qval: ntp.Time64{Seconds: 0xffffffff, Fraction: 0xffffffff}}
			it.buf[0].rxt, it.buf[0].txt = it.qval, it.qval
			tss[it.key] = it
			heap.Push(&tssQ, it)
		}
	} else {
		v.MapExtraLen(tss, extra)
	}
	minBefore := *ia
	var req, resp ntp.Packet
	v.Havoc("req", &req)
	rxt := c06time("rxt")
	var txt time.Time
	handleRequest(id, &req, &rxt, &txt, &resp)
	rxt64 := ntp.Time64FromTime(rxt)
	_, hasA := tss[a]
	_, hasB := tss[b]
	now, hasNew := tss[id]
	v.Assert(len(tss) <= tssCap, "C07.bound.at-most-2^20-clients")
	v.Assert(hasB, "C07.evict.only-the-least-recently-active")
	if !full {
		v.Assert(hasA && hasNew, "C07.evict.nothing-evicted-while-there-is-room")
	} else if minBefore.qval.After(rxt64) {
		// the least recently active client is more recent than the request: nobody is evicted, the
		// newcomer is served statelessly
		v.Assert(hasA && !hasNew, "C07.evict.newcomer-older-than-everybody-served-statelessly")
	} else {
		v.Assert(!hasA && hasNew, "C07.evict.least-recently-active-replaced")
	}
	// the reply is correct in either case (basic mode: nothing on record for this client)
	v.Assert(resp.ReceiveTime == rxt64 && resp.OriginTime == req.TransmitTime && resp.TransmitTime == ntp.Time64FromTime(txt), "C07.evict.reply-still-correct")
	if hasNew {
		v.Assert(now.len == 1 && now.buf[0].rxt == rxt64 && now.qval == rxt64, "C07.order.newcomer-ranked-by-its-exchange")
		v.Assert(tssQ[now.qidx] == now, "C07.order.newcomer-indexed")
	}
	v.Assert(!v.MutexHeld(&tssMu), "C07.lock.released-on-exit")
	v.Reach("C07.eviction")
}

// the index never ranks a client as older than its most recent stored exchange; with requests in
// timestamp order it is exactly that exchange
func VerifC07Rank() {
	c06clock()
	id, other := v.String("client"), v.String("other")
	v.Assume(id != other)
	cur, _, present := c06setup(id, other, 2)
	var req, resp ntp.Packet
	v.Havoc("req", &req)
	rxt := c06time("rxt")
	var txt time.Time
	var newest ntp.Time64
	inOrder := true
	if present {
		newest = cur.qval
	}
	handleRequest(id, &req, &rxt, &txt, &resp)
	if present && !resp.ReceiveTime.After(newest) {
		inOrder = false
	}
	now := tss[id]
	for i := 0; i < tssItemCap; i++ {
		if i < now.len {
			v.Assert(!now.qval.Before(now.buf[i].rxt), "C07.order.rank-not-older-than-any-stored-exchange")
		}
	}
	if inOrder {
		v.Assert(now.qval == resp.ReceiveTime, "C07.order.rank-is-newest-exchange-for-in-order-requests")
	}
	v.Assert(tssQ[now.qidx] == now, "C07.order.index-backpointer")
	c07heapOK("C07.order.after-request")
	v.Assert(!v.MutexHeld(&tssMu), "C07.lock.released-on-exit")
	v.Reach("C07.rank")
}

// native confirmation of a lock-set violation: the two operations run concurrently under the race
// detector (only used for replay)
func VerifC07RaceDriver() {
	c06clockNative()
	tss = make(map[string]*tssItem)
	tssQ = make(tssQueue, 0, 64)
	done := make(chan struct{})
	for g := 0; g < 4; g++ {
		go func(g int) {
			for i := 0; i < 2000; i++ {
				// a steady stream of insertions into and removals from the table (every other exchange
				// gets no kernel transmit stamp and is dropped again), shared and private client ids
				id := fmt.Sprintf("c%d", (g+i)%6)
				if i%2 == 1 {
					id = fmt.Sprintf("g%d-%d", g, i%64)
				}
				var req, resp ntp.Packet
				rxt := time.Unix(int64(1000+i), int64(g))
				var txt time.Time
				handleRequest(id, &req, &rxt, &txt, &resp)
				if i%4 != 1 {
					txt = txt.Add(time.Duration(g+1) * time.Microsecond)
				}
				updateTXTimestamp(id, rxt, &txt)
			}
			done <- struct{}{}
		}(g)
	}
	for g := 0; g < 4; g++ {
		<-done
	}
}

type c07realClock struct{ symClock }

func (c07realClock) Now() time.Time { return time.Now() }

func c06clockNative() {
	if !c06clockRegistered {
		coretimebaseRegister(c07realClock{})
		c06clockRegistered = true
	}
}

// dropping or updating an exchange keeps the ranking: afterwards the client is still not ranked older
// than any exchange that remains on record, and the index is still a heap
func c07RankUpdate(maxLen int) {
	c06clock()
	id, other := v.String("client"), v.String("other")
	v.Assume(id != other)
	cur, _, present := c06setupP(id, other, maxLen, true)
	rxt := c06time("rxt")
	txt := c06time("txt")
	updateTXTimestamp(id, rxt, &txt)
	now, ok := tss[id]
	if ok {
		v.Assert(present && now == cur, "C07.order.update-keeps-the-record-object")
		for i := 0; i < tssItemCap; i++ {
			if i < now.len {
				v.Assert(!now.qval.Before(now.buf[i].rxt), "C07.order.rank-not-older-than-any-remaining-exchange-after-update")
			}
		}
		v.Assert(tssQ[now.qidx] == now, "C07.order.index-backpointer-after-update")
	}
	c07heapOK("C07.order.after-update")
	v.Assert(len(tss) == len(tssQ), "C07.order.map-and-index-same-size")
	v.Assert(!v.MutexHeld(&tssMu), "C07.lock.released-on-exit")
	v.Reach("C07.rankupdate")
}

func VerifC07RankUpdate3() { c07RankUpdate(3) }
func VerifC07RankUpdate4() { c07RankUpdate(4) }
