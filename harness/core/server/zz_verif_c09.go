//go:build verif

package server

import (
	"context"
	"errors"
	"log/slog"
	"net"
	"net/netip"
	"time"

	"example.com/scion-time/net/ntske"
	v "example.com/scion-time/zzverif"
)

// the IP listener against an adversarial socket: k datagrams are delivered, then the harness stops the
// (endless) service loop by panicking from the read function

type c09stop struct{}

type c09dgram struct {
	data    []byte
	n       int
	src     netip.AddrPort
	flags   int
	readErr bool
}

var c09 struct {
	dg       [3]c09dgram
	k        int
	nreads   int
	nwrites  int
	writeAt  [4]int // read index during which the write happened
	written  [4][]byte
	writeTo  [4]netip.AddrPort
	writeErr bool
}

var errC09 = errors.New("c09: io error")

func c09Close(c *net.UDPConn) error                        { return nil }
func c09EnableTimestamping(c *net.UDPConn, s string) error { return nil }
func c09SetDSCP(c *net.UDPConn, d uint8) error             { return nil }
func c09TimestampLen() int                                 { return 64 }

func c09Read(c *net.UDPConn, b, oob []byte) (n, oobn, flags int, addr netip.AddrPort, err error) {
	i := c09.nreads
	if i >= c09.k {
		panic(c09stop{})
	}
	c09.nreads++
	d := &c09.dg[i]
	if d.readErr {
		return 0, 0, 0, netip.AddrPort{}, errC09
	}
	// a datagram longer than the buffer is cut off and flagged MSG_TRUNC, as recvmsg does
	n, fl := d.n, d.flags
	if n > len(b) {
		n, fl = len(b), fl|0x20
	}
	copy(b, d.data[:n])
	return n, 0, fl, d.src, nil
}

func c09TimestampFromOOB(oob []byte) (time.Time, error) {
	if v.Bool("rxstamp.ok") {
		return c06time("rxstamp"), nil
	}
	return time.Time{}, errC09
}

func c09Write(c *net.UDPConn, b []byte, addr netip.AddrPort) (int, error) {
	i := c09.nwrites
	c09.nwrites++
	if i < len(c09.written) {
		c09.written[i] = append([]byte(nil), b...)
		c09.writeTo[i] = addr
		c09.writeAt[i] = c09.nreads - 1
	}
	if c09.writeErr {
		return 0, errC09
	}
	return len(b), nil
}

func c09ReadTXTimestamp(c *net.UDPConn) (time.Time, uint32, error) {
	if v.Bool("txstamp.ok") {
		return c06time("txstamp"), v.Uint32("txstamp.id"), nil
	}
	return time.Time{}, 0, errC09
}

func c09addr(name string) netip.AddrPort {
	var a [4]byte
	for i := range a {
		a[i] = v.Uint8(name + ".ip")
	}
	return netip.AddrPortFrom(netip.AddrFrom4(a), v.Uint16(name+".port"))
}

func c09validRequest(first byte) bool {
	li, vn, mode := first>>6, (first>>3)&7, first&7
	return (li == 0 || li == 3) && ((vn >= 2 && vn <= 4 && mode == 3) || (vn == 1 && mode == 0))
}

// every datagram gets exactly one reply if it is a plain 48-byte client request and none otherwise
// (datagrams longer than 48 bytes would have to carry a valid NTS request; nothing of at most
// 48+maxExtra bytes can - the authenticated path is checked separately), to the sender's address and port
func c09Listener(k, maxExtra int) { c09ListenerX(k, maxExtra, -1) }

// firstShort >= 0: the first datagram has that many bytes (fewer than an NTP packet, so it is dropped before
// any request handling): what the listener does with the following datagrams must not depend on it
func c09ListenerX(k, maxExtra int, firstShort int) {
	c06clock()
	tss = make(map[string]*tssItem)
	tssQ = make(tssQueue, 0, 8)
	c09.k, c09.nreads, c09.nwrites = k, 0, 0
	c09.writeErr = v.Bool("write.fails")
	for i := 0; i < k; i++ {
		d := &c09.dg[i]
		d.data = v.Bytes("dg.data", 48+maxExtra)
		d.n = v.Int("dg.n")
		v.Assume(0 <= d.n && d.n <= 48+maxExtra)
		d.src = c09addr("dg.src")
		d.flags = v.Int("dg.flags")
		d.readErr = v.Bool("dg.readerr")
		if firstShort >= 0 && i == 0 {
			d.n, d.flags, d.readErr = firstShort, 0, false
		}
	}
	var provider *ntske.Provider
	if v.Native() {
		c09RunNative(k, provider)
	} else {
		stopped := v.Panics(func() {
			runIPServer(context.Background(), slog.New(slog.DiscardHandler), c09metrics(), &net.UDPConn{}, "", 0, provider)
		})
		v.Assert(stopped && c09.nreads == k, "C08.listener.every-datagram-is-consumed-and-the-loop-keeps-reading")
	}
	want := 0
	for i := 0; i < k; i++ {
		d := &c09.dg[i]
		answered := !d.readErr && d.flags == 0 && d.n == 48 && c09validRequest(d.data[0])
		replies := 0
		for j := 0; j < len(c09.written); j++ {
			if j < c09.nwrites && c09.writeAt[j] == i {
				replies++
				v.Assert(c09.writeTo[j] == d.src, "C09.listener.reply-goes-to-the-sender-address-and-port")
				w := c09.written[j]
				v.Assert(len(w) == 48 && w[0] == 0x24 && w[1] == 1, "C09.listener.reply-is-v4-server-stratum-1")
				// origin echoes the request's transmit timestamp (basic mode: nothing on record)
			}
		}
		if answered {
			want++
			v.Assert(replies == 1, "C09.listener.exactly-one-reply-per-valid-request")
		} else {
			v.Assert(replies == 0, "C09.listener.no-reply-for-any-other-payload")
		}
	}
	v.Assert(c09.nwrites == want, "C09.listener.total-number-of-replies")
	v.Reach("C09.listener")
}

func VerifC09Listener1()           { c09Listener(1, 8) }
func VerifC09Listener2()           { c09Listener(2, 8) }
func VerifC09ListenerAfterDrop1()  { c09ListenerX(2, 8, 1) }
func VerifC09ListenerAfterDrop47() { c09ListenerX(2, 8, 47) }

// native replay: the real listener on a loopback socket; each datagram is sent from a socket bound to
// its source address (127.x.y.z) and the replies arriving there are recorded
func c09RunNative(k int, provider *ntske.Provider) {
	sconn, err := net.ListenUDP("udp", &net.UDPAddr{IP: net.IP{127, 0, 0, 1}})
	if err != nil {
		panic(err)
	}
	go runIPServer(context.Background(), slog.New(slog.DiscardHandler), c09metrics(), sconn, "", 0, provider)
	saddr := sconn.LocalAddr().(*net.UDPAddr)
	for i := 0; i < k; i++ {
		d := &c09.dg[i]
		a4 := d.src.Addr().As4()
		cconn, err := net.ListenUDP("udp", &net.UDPAddr{IP: net.IP(a4[:]), Port: int(d.src.Port())})
		if err != nil {
			panic(v.AssumeViolated{Where: "cannot bind the source address natively: " + err.Error()})
		}
		if _, err := cconn.WriteToUDP(d.data[:d.n], saddr); err != nil {
			panic(err)
		}
		c09.nreads++
		buf := make([]byte, 2048)
		for {
			cconn.SetReadDeadline(time.Now().Add(300 * time.Millisecond))
			n, _, err := cconn.ReadFromUDP(buf)
			if err != nil {
				break
			}
			j := c09.nwrites
			c09.nwrites++
			if j < len(c09.written) {
				c09.written[j] = append([]byte(nil), buf[:n]...)
				c09.writeTo[j] = d.src // it arrived at the socket bound to the sender's address and port
				c09.writeAt[j] = i
			}
		}
		cconn.Close()
	}
}
