//go:build verif

package client

import (
	"math"
	"time"

	basetimebase "example.com/scion-time/base/timebase"
	"example.com/scion-time/base/timemath"
	"example.com/scion-time/core/timebase"
	"example.com/scion-time/net/ntp"
	v "example.com/scion-time/zzverif"
)

type c17sample struct {
	t0, t1, t2, t3 time.Time
	off, rtd       time.Duration
}

const c17lim = 1 << 59 // instants 1970..1988+: |differences| < 2^60, sums < 2^61, no overflow anywhere

func c17newSample() c17sample {
	var s c17sample
	a, b, c, d := v.Int64("t0"), v.Int64("t1"), v.Int64("t2"), v.Int64("t3")
	v.Assume(0 <= a && a < c17lim && 0 <= b && b < c17lim && 0 <= c && c < c17lim && 0 <= d && d < c17lim)
	s.t0, s.t1, s.t2, s.t3 = v.TimeNs(a), v.TimeNs(b), v.TimeNs(c), v.TimeNs(d)
	s.off = ntp.ClockOffset(s.t0, s.t1, s.t2, s.t3)
	s.rtd = ntp.RoundTripDelay(s.t0, s.t1, s.t2, s.t3)
	return s
}

// reference: median offset of the k lowest-delay samples of w (distinct delays), by counting
func c17spec(w []c17sample, k int) (lo, hi time.Duration) {
	n := len(w)
	if k > n {
		k = n
	}
	lucky := make([]bool, n)
	for i := 0; i < n; i++ {
		less := 0
		for j := 0; j < n; j++ {
			if w[j].rtd < w[i].rtd {
				less++
			}
		}
		lucky[i] = less < k
	}
	// value of rank r among the lucky offsets
	rank := func(r int) time.Duration {
		var val time.Duration
		for i := 0; i < n; i++ {
			if lucky[i] {
				lt, le := 0, 0
				for j := 0; j < n; j++ {
					if lucky[j] && w[j].off < w[i].off {
						lt++
					}
					if lucky[j] && w[j].off <= w[i].off {
						le++
					}
				}
				if lt <= r && r < le {
					val = w[i].off
				}
			}
		}
		return val
	}
	if k%2 != 0 {
		m := rank(k / 2)
		return m, m
	}
	return rank(k/2 - 1), rank(k / 2)
}

func c17Lucky(capN, pick, m int) {
	f := NewLuckyPacketFilter(capN, pick)
	var hist []c17sample
	for step := 0; step < m; step++ {
		s := c17newSample()
		for _, h := range hist {
			v.Assume(h.rtd != s.rtd) // distinct delays (as in the property)
		}
		hist = append(hist, s)
		got := f.Do(s.t0, s.t1, s.t2, s.t3)
		w := hist
		if len(w) > capN {
			w = w[len(w)-capN:]
		}
		lo, hi := c17spec(w, pick)
		if lo == hi {
			v.Assert(got == lo, "C17.lucky.median-of-k-lowest-delay-of-last-N")
		} else {
			// even count: the middle of the two middle offsets (either rounding)
			v.Assert(lo <= got && got <= hi, "C17.lucky.even-median-between-middle-pair")
			d := 2*int64(got) - (int64(lo) + int64(hi))
			v.Assert(-1 <= d && d <= 1, "C17.lucky.even-median-is-midpoint")
		}
	}
	v.Reach("C17.lucky")
}

// after Reset the output depends only on the samples seen since
func c17LuckyReset(capN, pick, pre, post int) {
	f := NewLuckyPacketFilter(capN, pick)
	g := NewLuckyPacketFilter(capN, pick)
	for i := 0; i < pre; i++ {
		s := c17newSample()
		f.Do(s.t0, s.t1, s.t2, s.t3)
	}
	f.Reset()
	var hist []c17sample
	for i := 0; i < post; i++ {
		s := c17newSample()
		for _, h := range hist {
			v.Assume(h.rtd != s.rtd) // distinct delays: ties may be ordered either way by the sort
		}
		hist = append(hist, s)
		a := f.Do(s.t0, s.t1, s.t2, s.t3)
		b := g.Do(s.t0, s.t1, s.t2, s.t3)
		v.Assert(a == b, "C17.lucky.reset-forgets-history")
	}
	v.Reach("C17.luckyreset")
}

func VerifC17LuckyUnconfigured() {
	f := &LuckyPacketFilter{}
	s := c17newSample()
	v.Assert(f.Do(s.t0, s.t1, s.t2, s.t3) == s.off, "C17.lucky.unconfigured-returns-raw-offset")
	s2 := c17newSample()
	v.Assert(f.Do(s2.t0, s2.t1, s2.t2, s2.t3) == s2.off, "C17.lucky.unconfigured-returns-raw-offset-2")
	v.Assert(v.Panics(func() { NewLuckyPacketFilter(0, 1) }) && v.Panics(func() { NewLuckyPacketFilter(1, 0) }), "C17.lucky.nonpositive-config-refused")
	v.Reach("C17.luckyunconf")
}

func VerifC17Lucky_1_1_3() { c17Lucky(1, 1, 3) }
func VerifC17Lucky_2_1_4() { c17Lucky(2, 1, 4) }
func VerifC17Lucky_2_2_4() { c17Lucky(2, 2, 4) }
func VerifC17Lucky_3_1_5() { c17Lucky(3, 1, 5) }
func VerifC17Lucky_3_2_5() { c17Lucky(3, 2, 5) }
func VerifC17Lucky_3_3_5() { c17Lucky(3, 3, 5) }
func VerifC17Lucky_3_5_4() { c17Lucky(3, 5, 4) } // k capped at N
func VerifC17Lucky_4_2_6() { c17Lucky(4, 2, 6) }
func VerifC17Lucky_4_3_6() { c17Lucky(4, 3, 6) }
func VerifC17Lucky_4_4_6() { c17Lucky(4, 4, 6) }
func VerifC17LuckyReset()  { c17LuckyReset(3, 2, 4, 4) }

// ---------------------------------------------------------------- Ntimed

type c17clock struct{}

func (c17clock) Epoch() uint64                        { return c17epoch }
func (c17clock) Now() time.Time                       { return time.Time{} }
func (c17clock) Drift(time.Duration) time.Duration    { return 0 }
func (c17clock) Step(time.Duration)                   {}
func (c17clock) Adjust(_, _ time.Duration, _ float64) {}
func (c17clock) Sleep(time.Duration)                  {}

var _ basetimebase.SystemClock = c17clock{}
var c17epoch uint64
var c17registered bool

func c17clk() {
	if !c17registered {
		timebase.RegisterClock(c17clock{})
		c17registered = true
	}
}

func c17ntimedState(name string) *NtimedFilter {
	f := NewNtimedFilter(nil)
	f.epoch = v.Uint64(name + ".epoch")
	f.alo, f.amid, f.ahi = v.Float64(name+".alo"), v.Float64(name+".amid"), v.Float64(name+".ahi")
	f.alolo, f.ahihi = v.Float64(name+".alolo"), v.Float64(name+".ahihi")
	f.navg = v.Float64(name + ".navg")
	return f
}

// a clock step (new epoch) or an explicit reset makes the filter behave exactly like a fresh one
func VerifC17NtimedReset() {
	c17clk()
	// (which epoch numbers are involved does not matter, only that they differ: concrete values keep
	// the comparison out of the floating-point queries)
	c17epoch = 7
	f := c17ntimedState("f")
	g := NewNtimedFilter(nil)
	explicit := v.Bool("explicit")
	if explicit {
		f.Reset()
	} else {
		f.epoch = 6
	}
	for i := 0; i < 3; i++ {
		s := c17newSample()
		a := f.Do(s.t0, s.t1, s.t2, s.t3)
		b := g.Do(s.t0, s.t1, s.t2, s.t3)
		v.Assert(a == b, "C17.ntimed.after-reset-output-as-fresh")
	}
	v.Assert(f.epoch == g.epoch && f.navg == g.navg, "C17.ntimed.after-reset-state-as-fresh")
	v.Reach("C17.ntimedreset")
}

// an explicit reset clears every piece of learned state
func VerifC17NtimedResetState() {
	c17clk()
	c17epoch = 7
	f := c17ntimedState("f")
	f.Reset()
	g := NewNtimedFilter(nil)
	v.Assert(f.alo == g.alo && f.amid == g.amid && f.ahi == g.ahi && f.alolo == g.alolo && f.ahihi == g.ahihi && f.navg == g.navg, "C17.ntimed.reset-clears-all-learned-state")
	v.Assert(f.epoch == c17epoch, "C17.ntimed.reset-records-epoch")
	// a new clock epoch does the same before the sample is absorbed: two filters that differ only in
	// their stale state end up in the same state
	h1, h2 := c17ntimedState("h1"), c17ntimedState("h2")
	h1.epoch, h2.epoch = 5, 6
	s := c17newSample()
	a := h1.Do(s.t0, s.t1, s.t2, s.t3)
	b := h2.Do(s.t0, s.t1, s.t2, s.t3)
	v.Assert(a == b, "C17.ntimed.epoch-change-output-independent-of-stale-state")
	same := func(x, y float64) bool { return math.Float64bits(x) == math.Float64bits(y) }
	v.Assert(same(h1.alo, h2.alo), "C17.ntimed.epoch-change-state-independent-of-stale-state.alo")
	v.Assert(same(h1.amid, h2.amid), "C17.ntimed.epoch-change-state-independent-of-stale-state.amid")
	v.Assert(same(h1.ahi, h2.ahi), "C17.ntimed.epoch-change-state-independent-of-stale-state.ahi")
	v.Assert(same(h1.alolo, h2.alolo), "C17.ntimed.epoch-change-state-independent-of-stale-state.alolo")
	v.Assert(same(h1.ahihi, h2.ahihi), "C17.ntimed.epoch-change-state-independent-of-stale-state.ahihi")
	v.Assert(same(h1.navg, h2.navg) && h1.epoch == h2.epoch, "C17.ntimed.epoch-change-state-independent-of-stale-state.navg-epoch")
	v.Reach("C17.ntimedresetstate")
}

// the third sample since a reset, from a concrete two-sample history without noise (averages 1 ms / 1.5 ms /
// 2 ms, limits exactly at the averages): whatever the sample - inside the limits, a one-sided or a two-sided
// outlier - the output is its raw offset (the exact floating-point state keeps the query decidable)
func VerifC17NtimedRawThird() {
	c17clk()
	c17epoch = 7
	f := NewNtimedFilter(nil)
	f.epoch = 7
	f.alo, f.amid, f.ahi = 0.001, 0.0015, 0.002
	f.alolo, f.ahihi = f.alo*f.alo, f.ahi*f.ahi
	f.navg = 2
	s := c17newSample()
	got := f.Do(s.t0, s.t1, s.t2, s.t3)
	lo := s.t0.Sub(s.t1).Seconds()
	hi := s.t3.Sub(s.t2).Seconds()
	want := timemath.Inv(timemath.Duration((lo + hi) / 2))
	v.Assert(got == want, "C17.ntimed.third-sample-raw-offset")
	v.Reach("C17.ntimedrawthird")
}

// while fewer than four samples have been seen since the last reset the output is the raw offset of
// the sample: -(lo+hi)/2 converted to a duration, whatever the rest of the state holds
func VerifC17NtimedRaw() {
	c17clk()
	c17epoch = v.Uint64("epoch")
	f := c17ntimedState("f")
	v.Assume(f.epoch == c17epoch)
	v.Assume(f.navg == 0 || f.navg == 1 || f.navg == 2)
	s := c17newSample()
	got := f.Do(s.t0, s.t1, s.t2, s.t3)
	lo := s.t0.Sub(s.t1).Seconds()
	hi := s.t3.Sub(s.t2).Seconds()
	want := timemath.Inv(timemath.Duration((lo + hi) / 2))
	v.Assert(got == want, "C17.ntimed.raw-offset-while-fewer-than-four-samples")
	v.Reach("C17.ntimedraw")
}
