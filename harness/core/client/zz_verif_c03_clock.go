//go:build verif

package client

import "example.com/scion-time/core/timebase"

func c03RegisterClock() { timebase.RegisterClock(c03clock{}) }
