//go:build verif

package client

import (
	"context"
	"errors"
	"time"

	"example.com/scion-time/core/measurements"
	v "example.com/scion-time/zzverif"
)

var errC16 = errors.New("c16: clock failed")

// a reference clock whose measurement succeeds or fails arbitrarily; a successful one reports its id
type c16clock struct {
	id    int
	ok    bool
	delay time.Duration // native replay: the measurement takes this long (virtual time under testing/synctest)
}

// Native replay (testing/synctest bubble, virtual time): the schedule of the counterexample becomes
// completion times: scheduling event e (a select evaluation or a receive of the drain goroutine) happens at
// (e+1)*c16tick; the deadline that fires at event e expires half a tick earlier, so that it is the only
// ready case of that select.  Clocks whose result nobody receives complete long after everything else.
const c16tick = 10 * time.Millisecond

var c16deadline time.Time // zero: no deadline

func c16ctx() (context.Context, context.CancelFunc) {
	if v.Native() {
		if at := v.RawInt("sched.fired_at.0", 255); at != 255 {
			c16deadline = time.Now().Add(time.Duration(at+1)*c16tick - c16tick/2)
			return context.WithDeadline(context.Background(), c16deadline)
		}
	}
	return context.Background(), func() {}
}

func c16delay(k int) time.Duration {
	if v.Native() {
		return time.Duration(v.RawInt("sched.at."+string(rune('0'+k)), 255)+1) * c16tick
	}
	return 0
}

// the round returned by its deadline: symbolically, the collecting goroutine never waited again after it
// had taken the deadline case; natively, the (virtual) clock has not passed the deadline
func c16onTime() bool {
	if v.Native() {
		return c16deadline.IsZero() || !time.Now().After(c16deadline)
	}
	return v.WaitsAfterDeadline() == 0
}

func (c *c16clock) MeasureClockOffset(ctx context.Context) (time.Time, time.Duration, error) {
	if v.Native() {
		time.Sleep(c.delay) // a slow clock that does not look at the context
	}
	if c.ok {
		return time.Unix(int64(c.id), 0).UTC(), time.Duration(c.id), nil
	}
	return time.Time{}, 0, errC16
}

const c16sentinel = -7

func c16setup(n int) ([]ReferenceClock, []*c16clock, []measurements.Measurement) {
	clks := make([]ReferenceClock, n)
	cs := make([]*c16clock, n)
	ms := make([]measurements.Measurement, n)
	for i := 0; i < n; i++ {
		cs[i] = &c16clock{id: i + 1, ok: v.Bool("clk.ok"), delay: c16delay(i)}
		clks[i] = cs[i]
		ms[i].Offset = c16sentinel
	}
	return clks, cs, ms
}

// filled entries form a prefix; each is the result of a distinct successful clock; the rest is untouched
func c16checkResults(n int, cs []*c16clock, ms []measurements.Measurement) (filled int) {
	seenSentinel := false
	for i := 0; i < n; i++ {
		if ms[i].Offset == c16sentinel {
			seenSentinel = true
			v.Assert(ms[i].Error == nil && ms[i].Timestamp.IsZero(), "C16.results.rest-of-slice-untouched")
		} else {
			v.Assert(!seenSentinel, "C16.results.successes-at-the-front")
			id := int(ms[i].Offset)
			v.Assert(1 <= id && id <= n, "C16.results.entry-is-a-clock-result")
			if 1 <= id && id <= n {
				v.Assert(cs[id-1].ok && ms[i].Error == nil, "C16.results.only-successful-measurements")
			}
			for j := 0; j < i; j++ {
				v.Assert(ms[j].Offset != ms[i].Offset, "C16.results.each-result-once")
			}
			filled++
		}
	}
	return
}

func c16Collect(n int) {
	clks, cs, ms := c16setup(n)
	ctx, cancel := c16ctx()
	defer cancel()
	var c ReferenceClockClient
	c.MeasureClockOffsets(ctx, clks, ms)
	v.Assert(c16onTime(), "C16.deadline.returns-by-the-deadline")
	filled := c16checkResults(n, cs, ms)
	nok := 0
	for i := 0; i < n; i++ {
		if cs[i].ok {
			nok++
		}
	}
	v.Assert(filled <= nok, "C16.results.no-more-than-succeeded")
	if !v.CtxFired(ctx) {
		// without a deadline firing, every successful measurement is collected
		v.Assert(filled == nok, "C16.results.all-successes-collected-when-in-time")
	}
	v.Assert(v.BlockedSenders() == 0, "C16.leak.every-send-is-received")
	v.Assert(c.numOpsInProgress == 0, "C16.reentry.counter-released")
	v.Reach("C16.collect")
}

// the count returned by the collector is the number of results stored
func c16Count(n int) {
	_, cs, ms := c16setup(n)
	ctx, cancel := c16ctx()
	defer cancel()
	msc := make(chan measurements.Measurement)
	for i := 0; i < n; i++ {
		go func(c *c16clock) {
			ts, off, err := c.MeasureClockOffset(ctx)
			msc <- measurements.Measurement{Timestamp: ts, Offset: off, Error: err}
		}(cs[i])
	}
	j := collectMeasurements(ctx, ms, msc)
	v.Assert(c16onTime(), "C16.deadline.returns-by-the-deadline")
	filled := c16checkResults(n, cs, ms)
	v.Assert(j == filled, "C16.count.returned-count-is-number-stored")
	v.Assert(v.BlockedSenders() == 0, "C16.leak.every-send-is-received")
	v.Reach("C16.count")
}

func VerifC16Reentry() {
	clks, _, ms := c16setup(2)
	ctx := context.Background()
	c := ReferenceClockClient{numOpsInProgress: 1}
	v.Assert(v.Panics(func() { c.MeasureClockOffsets(ctx, clks, ms) }), "C16.reentry.second-collection-refused")
	v.Assert(ms[0].Offset == c16sentinel && ms[1].Offset == c16sentinel, "C16.reentry.refused-before-any-effect")
	// the refused attempt must not release the claim of the collection that is in progress
	v.Assert(c.numOpsInProgress == 1, "C16.reentry.refusal-keeps-running-collection-registered")
	var d ReferenceClockClient
	v.Assert(v.Panics(func() { d.MeasureClockOffsets(ctx, clks, ms[:1]) }), "C16.lengths.mismatch-refused")
	v.Reach("C16.reentry")
}

func VerifC16Collect1() { c16Collect(1) }
func VerifC16Collect2() { c16Collect(2) }
func VerifC16Collect3() { c16Collect(3) }
func VerifC16Collect4() { c16Collect(4) }
func VerifC16Collect5() { c16Collect(5) }
func VerifC16Collect6() { c16Collect(6) }
func VerifC16Count3()   { c16Count(3) }
func VerifC16Count5()   { c16Count(5) }
