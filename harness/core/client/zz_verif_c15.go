//go:build verif

package client

import (
	"context"
	"log/slog"
	"net"
	"sync"
	"time"

	"github.com/scionproto/scion/pkg/addr"
	"github.com/scionproto/scion/pkg/snet"

	"example.com/scion-time/net/udp"
	v "example.com/scion-time/zzverif"
)

type c15path struct {
	id   int
	meta *snet.PathMetadata
}

func (p *c15path) UnderlayNextHop() *net.UDPAddr { return nil }
func (p *c15path) Dataplane() snet.DataplanePath { return nil }
func (p *c15path) Source() addr.IA               { return 0 }
func (p *c15path) Destination() addr.IA          { return 0 }
func (p *c15path) Metadata() *snet.PathMetadata  { return p.meta }

func c15newPath(id int) *c15path {
	return &c15path{id: id, meta: &snet.PathMetadata{Interfaces: []snet.PathInterface{{IA: addr.IA(id), ID: 1}}}}
}

// redirect targets for the symbolic run (props/c15.py)
func c15Fingerprint(p snet.Path) snet.PathFingerprint {
	switch p.(*c15path).id {
	case 1:
		return "fp1"
	case 2:
		return "fp2"
	case 3:
		return "fp3"
	case 4:
		return "fp4"
	case 5:
		return "fp5"
	}
	return "fp-withdrawn"
}

func c15fp(p snet.Path) string { return snet.Fingerprint(p).String() }

type c15filter struct{ resets int }

func (f *c15filter) Do(_, _, _, _ time.Time) time.Duration { return 0 }
func (f *c15filter) Reset()                                { f.resets++ }

var c15 struct {
	clients  [4]*SCIONClient
	assigned [4]int // path id measured by client i in the symbolic run (0 = none)
	offs     [4]time.Duration
	errs     [4]bool
	mu       sync.Mutex
	probed   []string // fingerprints seen in the "measuring clock offset" log records (native run)
}

func c15Measure(c *SCIONClient, ctx context.Context, mtrcs *scionClientMetrics, localAddr, remoteAddr udp.UDPAddr, p snet.Path) (time.Time, time.Duration, error) {
	for i := range c15.clients {
		if c15.clients[i] == c {
			c15.assigned[i] = p.(*c15path).id
			c15.offs[i] = time.Duration(v.Int64("meas.off"))
			c15.errs[i] = v.Bool("meas.fails")
			if c15.errs[i] {
				return time.Time{}, 0, errC16
			}
			return time.Unix(1, 0).UTC(), c15.offs[i], nil
		}
	}
	return time.Time{}, 0, errC16
}

// native observation of which paths are probed: the per-path goroutines log the fingerprint
type c15handler struct{}

func (c15handler) Enabled(context.Context, slog.Level) bool { return true }
func (c15handler) Handle(_ context.Context, r slog.Record) error {
	if r.Message == "measuring clock offset" {
		r.Attrs(func(a slog.Attr) bool {
			if a.Key == "via" {
				c15.mu.Lock()
				c15.probed = append(c15.probed, a.Value.String())
				c15.mu.Unlock()
			}
			return true
		})
	}
	return nil
}
func (h c15handler) WithAttrs([]slog.Attr) slog.Handler { return h }
func (h c15handler) WithGroup(string) slog.Handler      { return h }

// nc clients, np offered paths (pairwise different); any subset of the clients is in interleaved mode
// with a previous path that is still offered or has been withdrawn
func c15Assign(nc, np int) {
	paths := make([]snet.Path, np)
	fps := make([]string, np)
	for j := 0; j < np; j++ {
		paths[j] = c15newPath(j + 1)
		fps[j] = c15fp(paths[j])
	}
	withdrawn := c15fp(c15newPath(9))
	ntpcs := make([]*SCIONClient, nc)
	filters := make([]*c15filter, nc)
	sticky := make([]int, nc) // index of the previous path among the offered ones, -1 withdrawn, -2 not interleaved
	c15.probed = nil
	for i := 0; i < nc; i++ {
		filters[i] = &c15filter{}
		c := &SCIONClient{Log: slog.New(slog.DiscardHandler), InterleavedMode: true, Filter: filters[i]}
		sticky[i] = -2
		if v.Bool("client.interleaved") {
			c.prev.reference, c.prev.interleaved = "ref", true
			k := v.Int("client.prevpath")
			v.Assume(-1 <= k && k < np)
			sticky[i] = k
			c.prev.path = withdrawn
			for j := 0; j < np; j++ {
				if j == k {
					c.prev.path = fps[j]
				}
			}
			// two clients never hold the same previous path (they probed distinct paths in the last round)
			for h := 0; h < i; h++ {
				v.Assume(k < 0 || sticky[h] != k)
			}
		}
		ntpcs[i] = c
		c15.clients[i], c15.assigned[i] = c, 0
	}
	ps := make([]snet.Path, np)
	copy(ps, paths)
	log := slog.New(slog.DiscardHandler)
	if v.Native() {
		log = slog.New(c15handler{})
	}
	local := udp.UDPAddr{Host: &net.UDPAddr{}}
	remote := udp.UDPAddr{Host: &net.UDPAddr{}}
	ctx := context.Background()
	_, off, err := MeasureClockOffsetSCION(ctx, log, ntpcs, local, remote, ps)

	want := nc
	if np < want {
		want = np
	}
	if np == 0 {
		v.Assert(err == errNoPath, "C15.round.error-when-no-path-is-available")
	}
	// what was probed
	var probed []string
	if v.Native() {
		probed = c15.probed
	} else {
		for i := 0; i < nc; i++ {
			if c15.assigned[i] != 0 {
				probed = append(probed, fps[c15.assigned[i]-1])
			}
		}
	}
	if np > 0 {
		v.Assert(len(probed) == want, "C15.paths.as-many-participants-as-min-clients-paths")
	}
	for a := range probed {
		for b := 0; b < a; b++ {
			v.Assert(probed[a] != probed[b], "C15.paths.pairwise-distinct")
		}
		offered := false
		for j := 0; j < np; j++ {
			offered = offered || probed[a] == fps[j]
		}
		v.Assert(offered, "C15.paths.only-offered-paths")
	}
	for i := 0; i < nc; i++ {
		switch {
		case sticky[i] >= 0:
			// keeps the path of its previous exchange, is not reset
			found := false
			for a := range probed {
				found = found || probed[a] == fps[sticky[i]]
			}
			v.Assert(found, "C15.sticky.previous-path-still-offered-is-probed")
			if !v.Native() {
				v.Assert(c15.assigned[i] == sticky[i]+1, "C15.sticky.interleaved-client-keeps-its-path")
			}
			v.Assert(ntpcs[i].prev.reference == "ref" && filters[i].resets == 0, "C15.sticky.not-reset-while-its-path-is-offered")
		case sticky[i] == -1:
			v.Assert(ntpcs[i].prev.reference == "" && filters[i].resets == 1, "C15.sticky.withdrawn-path-resets-client-and-filter")
		}
	}
	if !v.Native() && nc == 1 && np >= 1 && err == nil && !c15.errs[0] && !v.CtxFired(ctx) {
		v.Assert(off == c15.offs[0], "C15.result.single-participant-offset-is-its-measurement")
	}
	v.Reach("C15.assign")
}

func VerifC15Assign_1_2() { c15Assign(1, 2) }
func VerifC15Assign_2_0() { c15Assign(2, 0) }
func VerifC15Assign_2_1() { c15Assign(2, 1) }
func VerifC15Assign_2_3() { c15Assign(2, 3) }
func VerifC15Assign_3_4() { c15Assign(3, 4) }
