//go:build verif

package client

import (
	"context"
	"errors"
	"log/slog"
	"net"
	"net/netip"
	"time"

	"example.com/scion-time/net/ntp"
	v "example.com/scion-time/zzverif"
)

// ---- the network and the kernel as an adversary: every answer is an arbitrary value of its type

type c03dgram struct {
	data    []byte
	n       int
	src     netip.AddrPort
	flags   int
	readErr bool
	rxOK    bool
	rx      time.Time
}

var c03 struct {
	req     []byte
	reqTo   netip.AddrPort
	nwrites int
	nreads  int
	dg      [3]c03dgram
	txOK    bool
	tx      time.Time
	nnow    int
	now     [8]time.Time
}

var errC03 = errors.New("c03: io error")

const c03MaxSec = 2085978496 - 16 // all instants inside NTP era 0 (see C04 for era crossings)

func c03time(name string) time.Time {
	ns := v.Int64(name)
	v.Assume(16000000000 <= ns && ns < c03MaxSec*1000000000)
	return v.TimeNs(ns)
}

// stamps and clock readings of one exchange come from one clock that does not run backwards: each is
// not before the previous one taken
var c03last time.Time

func c03next(name string) time.Time {
	t := c03time(name)
	v.Assume(!t.Before(c03last))
	c03last = t
	return t
}

type c03clock struct{}

func (c03clock) Epoch() uint64 { return 0 }
func (c03clock) Now() time.Time {
	if v.Native() {
		return time.Now()
	}
	t := c03next("clk.now")
	if c03.nnow < len(c03.now) {
		c03.now[c03.nnow] = t
	}
	c03.nnow++
	return t
}
func (c03clock) Drift(time.Duration) time.Duration    { return 0 }
func (c03clock) Step(time.Duration)                   {}
func (c03clock) Adjust(_, _ time.Duration, _ float64) {}
func (c03clock) Sleep(time.Duration)                  {}

// redirect targets (the engine calls these instead of the socket functions; see props/c03.py)
func c03ListenPacket(lc *net.ListenConfig, ctx context.Context, network, address string) (net.PacketConn, error) {
	if v.Bool("listen.fails") {
		return nil, errC03
	}
	return &net.UDPConn{}, nil
}
func c03Close(c *net.UDPConn) error                        { return nil }
func c03SetDeadline(c *net.UDPConn, t time.Time) error     { return nil }
func c03EnableTimestamping(c *net.UDPConn, s string) error { return nil }
func c03SetDSCP(c *net.UDPConn, d uint8) error             { return nil }
func c03TimestampLen() int                                 { return 64 }

func c03Write(c *net.UDPConn, b []byte, addr netip.AddrPort) (int, error) {
	c03.nwrites++
	c03.req = append([]byte(nil), b...)
	c03.reqTo = addr
	if v.Bool("write.fails") {
		return 0, errC03
	}
	return len(b), nil
}

func c03ReadTXTimestamp(c *net.UDPConn) (time.Time, uint32, error) {
	c03.txOK = v.Bool("txstamp.ok")
	if !c03.txOK {
		return time.Time{}, 0, errC03
	}
	c03.tx = c03next("txstamp")
	return c03.tx, 0, nil
}

func c03Read(c *net.UDPConn, b, oob []byte) (n, oobn, flags int, addr netip.AddrPort, err error) {
	i := c03.nreads
	c03.nreads++
	if i >= len(c03.dg) {
		return 0, 0, 0, netip.AddrPort{}, errC03
	}
	d := &c03.dg[i]
	if d.readErr {
		return 0, 0, 0, netip.AddrPort{}, errC03
	}
	copy(b, d.data[:d.n])
	return d.n, 0, d.flags, d.src, nil
}

func c03TimestampFromOOB(oob []byte) (time.Time, error) {
	d := &c03.dg[c03.nreads-1]
	if !d.rxOK {
		return time.Time{}, errC03
	}
	d.rx = c03next("dg.rx")
	return d.rx, nil
}

func c03addr(name string) netip.AddrPort {
	var a [4]byte
	for i := range a {
		a[i] = v.Uint8(name + ".ip")
	}
	return netip.AddrPortFrom(netip.AddrFrom4(a), v.Uint16(name+".port"))
}

func c03setup(maxLen int) {
	c03.req, c03.nwrites, c03.nreads, c03.nnow = nil, 0, 0, 0
	c03last = time.Time{}
	for i := range c03.dg {
		d := &c03.dg[i]
		d.data = v.Bytes("dg.data", maxLen)
		d.n = v.Int("dg.n")
		v.Assume(0 <= d.n && d.n <= maxLen)
		d.src = c03addr("dg.src")
		d.flags = v.Int("dg.flags")
		d.readErr = v.Bool("dg.readerr")
		d.rxOK = v.Bool("dg.rxok")
	}
}

var c03clockRegistered bool

// the datagram on which a successful measurement is based satisfies every acceptance condition
func c03Exchange(interleavedMode bool) {
	if !c03clockRegistered {
		c03RegisterClock()
		c03clockRegistered = true
	}
	c03setup(48)
	cl := &IPClient{Log: slog.New(slog.DiscardHandler), InterleavedMode: interleavedMode}
	remote := c03addr("remote")
	if v.Native() {
		// values the counterexample leaves open (the query did not depend on them) default to zero: pick a
		// usable loopback address and port instead
		if remote.Addr() == netip.AddrFrom4([4]byte{}) {
			remote = netip.AddrPortFrom(netip.AddrFrom4([4]byte{127, 0, 0, 2}), remote.Port())
		}
		if remote.Port() == 0 {
			remote = netip.AddrPortFrom(remote.Addr(), 34567)
		}
	}
	rip := remote.Addr().As4()
	remoteUDP := &net.UDPAddr{IP: net.IP(rip[:]), Port: int(remote.Port())}
	local := &net.UDPAddr{IP: net.IP{127, 0, 0, 1}}
	refStr := remoteUDP.String()
	// arbitrary state left by an earlier exchange
	if interleavedMode && v.Bool("prev.same") {
		cl.prev.reference = refStr
	} else if v.Bool("prev.other") {
		cl.prev.reference = "other"
	}
	cl.prev.interleaved = v.Bool("prev.interleaved")
	prevTx := c03next("prev.ctx")
	prevRx := c03next("prev.crx") // the previous exchange: response received after the request was sent, before this exchange
	cl.prev.cTxTime, cl.prev.cRxTime = ntp.Time64FromTime(prevTx), ntp.Time64FromTime(prevRx)
	cl.prev.sRxTime = ntp.Time64{Seconds: v.Uint32("prev.srx.s"), Fraction: v.Uint32("prev.srx.f")}
	if v.Native() {
		// the same earlier-exchange state, moved from the counterexample's clock to the wall clock
		c03delta = time.Since(v.TimeNs(v.RawInt("clk.now", 0)))
		cl.prev.cTxTime, cl.prev.cRxTime = ntp.Time64FromTime(prevTx.Add(c03delta)), ntp.Time64FromTime(prevRx.Add(c03delta))
		cl.prev.sRxTime = c03shift(cl.prev.sRxTime)
		if ob := v.Obligation(); !(len(ob) >= 3 && ob[:3] == "C05") && ob != "C03.client.state-records-this-exchange" {
			// the offset-accuracy replay runs a fresh client against the conformant responder
			cl.prev = IPClient{}.prev
		}
		c03Native(cl, remote)
		return
	}
	prev := cl.prev

	ctx, cancel := context.WithTimeout(context.Background(), time.Second)
	defer cancel()
	var mtrcs *ipClientMetrics
	if v.Native() {
		mtrcs = ipMetrics.Load()
	} else {
		mtrcs = newIPClientMetrics()
	}
	ts, off, err := cl.measureClockOffsetIP(ctx, mtrcs, local, remoteUDP)

	v.Assert(c03.nwrites <= 1, "C05.client.at-most-one-request-per-exchange")
	if err == nil {
		v.Assert(c03.nwrites == 1 && c03.nreads >= 1 && c03.nreads <= 2, "C05.accept.one-request-at-most-one-retry")
		v.Assert(compareAddrs(c03.reqTo.Addr(), remote.Addr()) == 0 && c03.reqTo.Port() == remote.Port(), "C05.request.sent-to-the-queried-server")
		var req ntp.Packet
		v.Assert(ntp.DecodePacket(&req, c03.req) == nil, "C05.request.well-formed")
		d := &c03.dg[c03.nreads-1]
		var resp ntp.Packet
		v.Assert(!d.readErr && d.flags == 0 && d.n >= ntp.PacketLen && ntp.DecodePacket(&resp, d.data[:d.n]) == nil, "C05.accept.datagram-read-and-decoded")
		v.Assert(compareAddrs(d.src.Addr(), remote.Addr()) == 0, "C05.accept.from-the-queried-server")
		// an interleaved request carries the stamps of the previous exchange; a basic one only its transmit time
		reqInterleaved := req.ReceiveTime != (ntp.Time64{}) || req.OriginTime != (ntp.Time64{})
		if reqInterleaved {
			v.Assert(interleavedMode && prev.reference == refStr && req.OriginTime == prev.sRxTime && req.ReceiveTime == prev.cRxTime && req.TransmitTime == prev.cTxTime, "C03.request.interleaved-request-carries-the-previous-exchange")
		}
		// how the client classified the response (it records this for the next exchange)
		inter := interleavedMode && cl.prev.interleaved
		if inter {
			v.Assert(reqInterleaved && resp.OriginTime == req.ReceiveTime, "C05.accept.interleaved-response-echoes-the-request-receive-stamp")
		} else {
			v.Assert(resp.OriginTime == req.TransmitTime, "C05.accept.origin-echoes-the-outstanding-request")
		}
		v.Assert(resp.Mode() == ntp.ModeServer && (resp.Version() == 3 || resp.Version() == 4) && resp.LeapIndicator() != 3 && resp.Stratum >= 1 && resp.Stratum <= 15, "C05.accept.server-mode-v3or4-known-leap-stratum-1-15")
		// timestamps handed to the offset computation, as the code reconstructs them
		ref0 := c03.now[0] // the clock reading taken before sending
		sRx, sTx := ntp.TimeFromTime64(resp.ReceiveTime, ref0), ntp.TimeFromTime64(resp.TransmitTime, ref0)
		// the client's own stamps for this exchange
		cTx := c03.tx
		if !c03.txOK {
			cTx = c03.now[1]
		}
		cRx := d.rx
		if !d.rxOK {
			cRx = c03.now[c03.nnow-1]
		}
		var t0, t1, t2, t3 time.Time
		if inter {
			t0, t1, t2, t3 = ntp.TimeFromTime64(prev.cTxTime, ref0), ntp.TimeFromTime64(prev.sRxTime, ref0), sTx, ntp.TimeFromTime64(prev.cRxTime, ref0)
		} else {
			t0, t1, t2, t3 = cTx, sRx, sTx, cRx
		}
		v.Assert(!t2.Before(t1), "C05.accept.transmit-not-before-receive")
		// C03: the four stamps combined belong to one exchange, and the offset is the NTP formula of them
		v.Assert(off == ntp.ClockOffset(t0, t1, t2, t3), "C03.client.offset-combines-the-stamps-of-one-exchange")
		v.Assert(ts.Equal(cRx), "C03.client.timestamp-is-receive-time")
		if interleavedMode {
			v.Assert(cl.prev.reference == refStr && cl.prev.cTxTime == ntp.Time64FromTime(cTx) && cl.prev.cRxTime == ntp.Time64FromTime(cRx) && cl.prev.sRxTime == resp.ReceiveTime, "C03.client.state-records-this-exchange")
		}
	} else {
		v.Assert(off == 0, "C05.reject.no-offset-with-an-error")
		v.Assert(cl.prev == prev, "C05.reject.state-unchanged-on-error")
	}
	v.Reach("C03.exchange")
}

func VerifC03ExchangeBasic()       { c03Exchange(false) }
func VerifC03ExchangeInterleaved() { c03Exchange(true) }

// the NTP formulas: with client stamps A (sent), B (received), server stamps T1 = A+theta+d1,
// T2 = T1+proc, B = T2-theta+d2 the offset is within half the round-trip delay of theta
func VerifC03Formula() {
	a, theta, d1, d2, proc := v.Int64("A"), v.Int64("theta"), v.Int64("d1"), v.Int64("d2"), v.Int64("proc")
	const lim = 1 << 58
	v.Assume(0 <= a && a < lim && -lim < theta && theta < lim && 0 <= d1 && d1 < lim && 0 <= d2 && d2 < lim && 0 <= proc && proc < lim)
	t1n := a + theta + d1
	t2n := t1n + proc
	bn := t2n - theta + d2
	v.Assume(0 <= t1n && 0 <= bn)
	t0, t1, t2, t3 := v.TimeNs(a), v.TimeNs(t1n), v.TimeNs(t2n), v.TimeNs(bn)
	off := int64(ntp.ClockOffset(t0, t1, t2, t3))
	rtd := int64(ntp.RoundTripDelay(t0, t1, t2, t3))
	v.Assert(rtd == d1+d2, "C03.formula.round-trip-delay-is-the-sum-of-the-path-delays")
	e := off - theta
	if e < 0 {
		e = -e
	}
	v.Assert(2*e <= rtd+1, "C03.formula.offset-within-half-the-round-trip-delay")
	v.Assert(ntp.ValidateResponseTimestamps(t0, t1, t2, t3) == nil, "C03.formula.conformant-exchange-validates")
	v.Reach("C03.formula")
}

// ---- native replay through real loopback sockets (see DESIGN 10): the symbolic counterexample's
// datagrams are sent by a scripted peer; for the offset property a conformant server whose clock is
// ahead by a known theta answers, and the property itself is evaluated on the real client

const c03theta = 2500 * time.Millisecond

// wall clock minus the counterexample's clock (native replay)
var c03delta time.Duration

// a server-side stamp of the counterexample, moved to the wall clock (zero stays zero)
func c03shift(t ntp.Time64) ntp.Time64 {
	if t == (ntp.Time64{}) {
		return t
	}
	ref := v.TimeNs(v.RawInt("clk.now", 0))
	return ntp.Time64FromTime(ntp.TimeFromTime64(t, ref).Add(c03delta))
}

func c03acceptable(b []byte, fromServer bool, req *ntp.Packet) bool {
	var p ntp.Packet
	if !fromServer || ntp.DecodePacket(&p, b) != nil {
		return false
	}
	reqInter := req.ReceiveTime != (ntp.Time64{}) || req.OriginTime != (ntp.Time64{})
	if !(p.OriginTime == req.TransmitTime || reqInter && p.OriginTime == req.ReceiveTime) {
		return false
	}
	if p.Mode() != ntp.ModeServer || (p.Version() != 3 && p.Version() != 4) || p.LeapIndicator() == 3 || p.Stratum < 1 || p.Stratum > 15 {
		return false
	}
	now := time.Now()
	return !ntp.TimeFromTime64(p.TransmitTime, now).Before(ntp.TimeFromTime64(p.ReceiveTime, now))
}

func c03Native(cl *IPClient, remote netip.AddrPort) {
	attack := len(v.Obligation()) >= 3 && v.Obligation()[:3] == "C05"
	a4 := remote.Addr().As4()
	srv, err := net.ListenUDP("udp", &net.UDPAddr{IP: net.IP(a4[:]), Port: int(remote.Port())})
	if err != nil {
		panic(v.AssumeViolated{Where: "cannot bind the server address natively: " + err.Error()})
	}
	defer srv.Close()
	var lastReq ntp.Packet
	anyAcceptable := false
	// the request of the symbolic run carried the stamp of the counterexample's first clock reading
	cexTx := ntp.Time64FromTime(v.TimeNs(v.Int64("clk.now")))
	// (an interleaved request of the symbolic run carried the previous exchange's receive stamp)
	cexPrevRx := ntp.Time64FromTime(v.TimeNs(v.RawInt("prev.crx", 0)))
	var lastResp ntp.Packet
	nreq := 0
	var prevRx, prevTx ntp.Time64
	go func() {
		buf := make([]byte, 2048)
		for {
			n, from, err := srv.ReadFromUDP(buf)
			if err != nil {
				return
			}
			rx := time.Now().Add(c03theta)
			var req ntp.Packet
			if ntp.DecodePacket(&req, buf[:n]) != nil {
				continue
			}
			lastReq = req
			if attack {
				// the counterexample's datagrams, with echoed stamps renamed to the actual request's
				for i := range c03.dg {
					d := &c03.dg[i]
					out := append([]byte(nil), d.data[:d.n]...)
					var dp ntp.Packet
					if ntp.DecodePacket(&dp, out) == nil {
						// rename the echoed stamp to the one the real request carries and move the
						// server's stamps from the counterexample's clock to the wall clock
						if dp.OriginTime == cexTx {
							dp.OriginTime = req.TransmitTime
						} else if dp.OriginTime == cexPrevRx && cexPrevRx != (ntp.Time64{}) {
							dp.OriginTime = req.ReceiveTime
						}
						dp.ReceiveTime, dp.TransmitTime = c03shift(dp.ReceiveTime), c03shift(dp.TransmitTime)
						hdr := out[:0:0]
						ntp.EncodePacket(&hdr, &dp)
						copy(out, hdr)
					}
					fromServer := d.src.Addr() == remote.Addr()
					if fromServer {
						if c03acceptable(out, true, &req) {
							anyAcceptable = true
						}
						srv.WriteToUDP(out, from)
					} else {
						s4 := d.src.Addr().As4()
						// same source port as in the counterexample when it can be bound (a foreign host
						// may well use the server's port number)
						alt, err := net.ListenUDP("udp", &net.UDPAddr{IP: net.IP(s4[:]), Port: int(d.src.Port())})
						if err != nil {
							alt, err = net.ListenUDP("udp", &net.UDPAddr{IP: net.IP(s4[:])})
						}
						if err == nil {
							alt.WriteToUDP(out, from)
							alt.Close()
						}
					}
					time.Sleep(20 * time.Millisecond)
				}
				continue
			}
			// conformant server, basic and interleaved mode; its reply to the second request is lost on
			// the way (and, as in core/server, the record that reply was served from is gone afterwards)
			nreq++
			if nreq == 2 {
				prevRx, prevTx = ntp.Time64{}, ntp.Time64{}
				continue
			}
			var resp ntp.Packet
			resp.SetVersion(4)
			resp.SetMode(ntp.ModeServer)
			resp.Stratum = 1
			resp.ReceiveTime = ntp.Time64FromTime(rx)
			if req.ReceiveTime != req.TransmitTime && req.OriginTime == prevRx && prevRx != (ntp.Time64{}) {
				resp.OriginTime = req.ReceiveTime
				resp.TransmitTime = prevTx
			} else {
				resp.OriginTime = req.TransmitTime
				resp.TransmitTime = ntp.Time64FromTime(time.Now().Add(c03theta))
			}
			var out []byte
			ntp.EncodePacket(&out, &resp)
			lastResp = resp
			tx := time.Now().Add(c03theta)
			srv.WriteToUDP(out, from)
			prevRx, prevTx = resp.ReceiveTime, ntp.Time64FromTime(tx)
		}
	}()
	local := &net.UDPAddr{IP: net.IP{127, 0, 0, 1}}
	remoteUDP := &net.UDPAddr{IP: net.IP(a4[:]), Port: int(remote.Port())}
	rounds := 4
	if attack {
		rounds = 1
	}
	for r := 0; r < rounds; r++ {
		ctx, cancel := context.WithTimeout(context.Background(), 500*time.Millisecond)
		before := cl.prev
		_, off, err := cl.measureClockOffsetIP(ctx, ipMetrics.Load(), local, remoteUDP)
		cancel()
		if attack {
			if err == nil {
				_ = lastReq
				v.Assert(anyAcceptable, v.Obligation())
			} else if println("native: exchange error:", err.Error()); v.Obligation() == "C05.reject.state-unchanged-on-error" {
				v.Assert(cl.prev == before, v.Obligation())
			}
		} else if r == 1 {
			// the reply of this round was dropped on purpose: the exchange times out
		} else if err == nil && v.Obligation() == "C03.client.state-records-this-exchange" {
			v.Assert(!cl.InterleavedMode || cl.prev.sRxTime == lastResp.ReceiveTime, v.Obligation())
		} else if err == nil {
			d := off - c03theta
			if d < 0 {
				d = -d
			}
			// loopback round trips are far below 20 ms
			v.Assert(d <= 20*time.Millisecond, v.Obligation())
		} else {
			// a failure to send at all says something about the replay environment, not about the client
			var oe *net.OpError
			if errors.As(err, &oe) && oe.Op != "read" {
				panic(v.AssumeViolated{Where: "native exchange could not be run: " + err.Error()})
			}
			v.Assert(false, v.Obligation())
		}
		time.Sleep(10 * time.Millisecond)
	}
}
