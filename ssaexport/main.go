// ssaexport: loads /repo (plus overlay harness files) with go/packages, builds
// go/ssa with generics instantiated and dumps, as JSON, every function that is
// reachable from the named entry points, together with the types, globals and
// method tables the symbolic executor needs.
package main

import (
	"crypto/sha256"
	"encoding/hex"
	"encoding/json"
	"flag"
	"fmt"
	"go/constant"
	"go/token"
	"go/types"
	"os"
	"path/filepath"
	"sort"
	"strings"

	"golang.org/x/tools/go/packages"
	"golang.org/x/tools/go/ssa"
	"golang.org/x/tools/go/ssa/ssautil"
)

type Val map[string]any
type Instr map[string]any

type Block struct {
	Index  int     `json:"index"`
	Preds  []int   `json:"preds"`
	Succs  []int   `json:"succs"`
	Instrs []Instr `json:"instrs"`
	Comment string `json:"comment,omitempty"`
}

type Func struct {
	Name     string   `json:"name"`
	Pkg      string   `json:"pkg"`
	Short    string   `json:"short"`
	Params   []Val    `json:"params"`
	FreeVars []Val    `json:"freevars"`
	Results  []string `json:"results"`
	Blocks   []Block  `json:"blocks,omitempty"`
	HasBody  bool     `json:"hasBody"`
	Hash     string   `json:"hash,omitempty"`
	Pos      string   `json:"pos,omitempty"`
	NInstr   int      `json:"ninstr"`
	Recover  int      `json:"recover"`
	Synthetic string  `json:"synthetic,omitempty"`
}

type Out struct {
	Functions  map[string]*Func           `json:"functions"`
	Types      map[string]map[string]any  `json:"types"`
	Globals    map[string]string          `json:"globals"`
	MethodSets map[string]map[string]string `json:"methodsets"`
	Entries    []string                   `json:"entries"`
}

var (
	out     = Out{Functions: map[string]*Func{}, Types: map[string]map[string]any{}, Globals: map[string]string{}, MethodSets: map[string]map[string]string{}}
	prog    *ssa.Program
	fset    *token.FileSet
	execPkg = map[string]bool{}
	execPfx []string
	noBody  = map[string]bool{}
	work    []*ssa.Function
	seen    = map[*ssa.Function]bool{}
	srcCache = map[string][]byte{}
	sizes   types.Sizes
)

func typeID(t types.Type) string {
	if t == nil {
		return ""
	}
	t = types.Unalias(t)
	id := types.TypeString(t, nil)
	if _, ok := out.Types[id]; ok {
		return id
	}
	d := map[string]any{}
	out.Types[id] = d
	switch tt := t.(type) {
	case *types.Basic:
		d["kind"] = "basic"
		d["name"] = tt.Name()
		info := tt.Info()
		switch {
		case info&types.IsBoolean != 0:
			d["kind"] = "bool"
		case info&types.IsInteger != 0:
			d["kind"] = "int"
			d["signed"] = info&types.IsUnsigned == 0
			if tt.Kind() == types.UntypedInt || tt.Kind() == types.UntypedRune {
				d["bits"] = 64
			} else {
				d["bits"] = int(sizes.Sizeof(tt)) * 8
			}
		case info&types.IsFloat != 0:
			d["kind"] = "float"
			if tt.Kind() == types.Float32 {
				d["bits"] = 32
			} else {
				d["bits"] = 64
			}
		case info&types.IsString != 0:
			d["kind"] = "string"
		case tt.Kind() == types.UnsafePointer:
			d["kind"] = "unsafeptr"
		case tt.Kind() == types.UntypedNil:
			d["kind"] = "nil"
		case info&types.IsComplex != 0:
			d["kind"] = "complex"
		default:
			d["kind"] = "invalid"
		}
	case *types.Named:
		d["kind"] = "named"
		d["name"] = id
		d["underlying"] = typeID(tt.Underlying())
	case *types.Alias:
		d["kind"] = "named"
		d["name"] = id
		d["underlying"] = typeID(types.Unalias(tt))
	case *types.Pointer:
		d["kind"] = "ptr"
		d["elem"] = typeID(tt.Elem())
	case *types.Slice:
		d["kind"] = "slice"
		d["elem"] = typeID(tt.Elem())
	case *types.Array:
		d["kind"] = "array"
		d["elem"] = typeID(tt.Elem())
		d["len"] = tt.Len()
	case *types.Struct:
		d["kind"] = "struct"
		fs := []map[string]any{}
		var ftypes []*types.Var
		for i := 0; i < tt.NumFields(); i++ {
			ftypes = append(ftypes, tt.Field(i))
		}
		offs := sizes.Offsetsof(ftypes)
		for i := 0; i < tt.NumFields(); i++ {
			f := tt.Field(i)
			fs = append(fs, map[string]any{"name": f.Name(), "type": typeID(f.Type()), "offset": offs[i]})
		}
		d["fields"] = fs
		d["size"] = sizes.Sizeof(tt)
	case *types.Interface:
		d["kind"] = "iface"
		ms := []string{}
		for i := 0; i < tt.NumMethods(); i++ {
			ms = append(ms, tt.Method(i).Name())
		}
		d["methods"] = ms
	case *types.Signature:
		d["kind"] = "func"
		ps := []string{}
		for i := 0; i < tt.Params().Len(); i++ {
			ps = append(ps, typeID(tt.Params().At(i).Type()))
		}
		rs := []string{}
		for i := 0; i < tt.Results().Len(); i++ {
			rs = append(rs, typeID(tt.Results().At(i).Type()))
		}
		d["params"] = ps
		d["results"] = rs
	case *types.Map:
		d["kind"] = "map"
		d["key"] = typeID(tt.Key())
		d["elem"] = typeID(tt.Elem())
	case *types.Chan:
		d["kind"] = "chan"
		d["elem"] = typeID(tt.Elem())
	case *types.Tuple:
		d["kind"] = "tuple"
		es := []string{}
		for i := 0; i < tt.Len(); i++ {
			es = append(es, typeID(tt.At(i).Type()))
		}
		d["elems"] = es
	case *types.TypeParam:
		d["kind"] = "typeparam"
	default:
		d["kind"] = "unknown"
		d["go"] = fmt.Sprintf("%T", t)
	}
	return id
}

func fname(f *ssa.Function) string {
	return f.String()
}

func wantBody(f *ssa.Function) bool {
	if f.Blocks == nil {
		return false
	}
	n := fname(f)
	if noBody[n] {
		return false
	}
	var pp string
	if f.Pkg != nil {
		pp = f.Pkg.Pkg.Path()
	} else if f.Origin() != nil && f.Origin().Pkg != nil {
		pp = f.Origin().Pkg.Pkg.Path()
	} else if o := f.Object(); o != nil && o.Pkg() != nil {
		pp = o.Pkg().Path()
	} else if f.Parent() != nil {
		return wantBody(f.Parent())
	} else {
		// wrappers/bounds/thunks: take from receiver/name
		for _, p := range execPfx {
			if strings.Contains(n, p) {
				return true
			}
		}
		return false
	}
	if execPkg[pp] {
		return true
	}
	for _, p := range execPfx {
		if strings.HasPrefix(pp, p) {
			return true
		}
	}
	return false
}

func enqueue(f *ssa.Function) {
	if f == nil || seen[f] {
		return
	}
	seen[f] = true
	work = append(work, f)
}

func val(v ssa.Value) Val {
	if v == nil {
		return nil
	}
	switch x := v.(type) {
	case *ssa.Const:
		r := Val{"k": "const", "t": typeID(x.Type())}
		if x.Value == nil {
			r["v"] = nil
		} else {
			switch x.Value.Kind() {
			case constant.Bool:
				r["v"] = constant.BoolVal(x.Value)
			case constant.String:
				r["v"] = constant.StringVal(x.Value)
				r["str"] = true
			case constant.Int:
				r["v"] = x.Value.ExactString()
			case constant.Float:
				f, _ := constant.Float64Val(x.Value)
				r["v"] = fmt.Sprintf("%x", f)
				r["float"] = true
				// int-typed constants given as float literal (e.g. 1e9)
				if b, ok := x.Type().Underlying().(*types.Basic); ok && b.Info()&types.IsInteger != 0 {
					r["v"] = constant.ToInt(x.Value).ExactString()
					delete(r, "float")
				}
			default:
				r["v"] = x.Value.ExactString()
				r["other"] = true
			}
		}
		return r
	case *ssa.Global:
		out.Globals[x.String()] = typeID(x.Type())
		return Val{"k": "global", "n": x.String(), "t": typeID(x.Type())}
	case *ssa.Function:
		enqueue(x)
		return Val{"k": "func", "n": fname(x), "t": typeID(x.Type())}
	case *ssa.Builtin:
		return Val{"k": "builtin", "n": x.Name()}
	case *ssa.Parameter:
		return Val{"k": "reg", "n": "$p:" + x.Name(), "t": typeID(v.Type())}
	case *ssa.FreeVar:
		return Val{"k": "reg", "n": "$f:" + x.Name(), "t": typeID(v.Type())}
	default:
		return Val{"k": "reg", "n": v.Name(), "t": typeID(v.Type())}
	}
}

func vals(vs []ssa.Value) []Val {
	r := []Val{}
	for _, v := range vs {
		r = append(r, val(v))
	}
	return r
}

func callCommon(c *ssa.CallCommon, in Instr) {
	in["args"] = vals(c.Args)
	if c.IsInvoke() {
		in["invoke"] = true
		in["recv"] = val(c.Value)
		in["method"] = c.Method.Name()
		in["recvtype"] = typeID(c.Value.Type())
	} else {
		in["fn"] = val(c.Value)
		if sc := c.StaticCallee(); sc != nil {
			in["static"] = fname(sc)
			enqueue(sc)
		}
	}
	in["sig"] = typeID(c.Signature())
}

func addMethodSet(t types.Type) {
	id := typeID(t)
	if _, ok := out.MethodSets[id]; ok {
		return
	}
	m := map[string]string{}
	out.MethodSets[id] = m
	ms := prog.MethodSets.MethodSet(t)
	for i := 0; i < ms.Len(); i++ {
		sel := ms.At(i)
		f := prog.MethodValue(sel)
		if f == nil {
			continue
		}
		m[sel.Obj().Name()] = fname(f)
		// bodies only on demand: enqueue if its package is executed
		if wantBody(f) {
			enqueue(f)
		} else {
			// export signature only
			if !seen[f] {
				seen[f] = true
				out.Functions[fname(f)] = sigOnly(f)
			}
		}
	}
}

func sigOnly(f *ssa.Function) *Func {
	fn := &Func{Name: fname(f), HasBody: false, Short: f.Name()}
	if f.Pkg != nil {
		fn.Pkg = f.Pkg.Pkg.Path()
	}
	for _, p := range f.Params {
		fn.Params = append(fn.Params, Val{"n": "$p:" + p.Name(), "t": typeID(p.Type())})
	}
	res := f.Signature.Results()
	for i := 0; i < res.Len(); i++ {
		fn.Results = append(fn.Results, typeID(res.At(i).Type()))
	}
	return fn
}

func posStr(p token.Pos) string {
	if !p.IsValid() {
		return ""
	}
	ps := fset.Position(p)
	return fmt.Sprintf("%s:%d", ps.Filename, ps.Line)
}

func srcHash(f *ssa.Function) string {
	syn := f.Syntax()
	if syn == nil {
		return ""
	}
	s := fset.Position(syn.Pos())
	e := fset.Position(syn.End())
	b, ok := srcCache[s.Filename]
	if !ok {
		b, _ = os.ReadFile(s.Filename)
		if ov, ok2 := overlay[s.Filename]; ok2 {
			b = ov
		}
		srcCache[s.Filename] = b
	}
	if s.Offset < 0 || e.Offset > len(b) || s.Offset > e.Offset {
		return ""
	}
	h := sha256.Sum256(b[s.Offset:e.Offset])
	return hex.EncodeToString(h[:8])
}

var overlay = map[string][]byte{}

func export(f *ssa.Function) {
	name := fname(f)
	if !wantBody(f) {
		out.Functions[name] = sigOnly(f)
		return
	}
	fn := sigOnly(f)
	fn.HasBody = true
	fn.Hash = srcHash(f)
	fn.Pos = posStr(f.Pos())
	fn.Synthetic = f.Synthetic
	for _, fv := range f.FreeVars {
		fn.FreeVars = append(fn.FreeVars, Val{"n": "$f:" + fv.Name(), "t": typeID(fv.Type())})
	}
	fn.Recover = -1
	if f.Recover != nil {
		fn.Recover = f.Recover.Index
	}
	out.Functions[name] = fn
	for _, b := range f.Blocks {
		blk := Block{Index: b.Index, Comment: b.Comment}
		for _, p := range b.Preds {
			blk.Preds = append(blk.Preds, p.Index)
		}
		for _, s := range b.Succs {
			blk.Succs = append(blk.Succs, s.Index)
		}
		for _, ins := range b.Instrs {
			in := Instr{}
			if v, ok := ins.(ssa.Value); ok {
				in["name"] = v.Name()
				in["type"] = typeID(v.Type())
			}
			if p := ins.Pos(); p.IsValid() {
				in["pos"] = posStr(p)
			}
			switch x := ins.(type) {
			case *ssa.DebugRef:
				continue
			case *ssa.Alloc:
				in["op"] = "Alloc"
				in["heap"] = x.Heap
				in["comment"] = x.Comment
			case *ssa.BinOp:
				in["op"] = "BinOp"
				in["tok"] = x.Op.String()
				in["x"] = val(x.X)
				in["y"] = val(x.Y)
			case *ssa.UnOp:
				in["op"] = "UnOp"
				in["tok"] = x.Op.String()
				in["x"] = val(x.X)
				in["commaok"] = x.CommaOk
			case *ssa.Call:
				in["op"] = "Call"
				callCommon(&x.Call, in)
			case *ssa.Go:
				in["op"] = "Go"
				callCommon(&x.Call, in)
			case *ssa.Defer:
				in["op"] = "Defer"
				callCommon(&x.Call, in)
			case *ssa.ChangeInterface:
				in["op"] = "ChangeInterface"
				in["x"] = val(x.X)
			case *ssa.ChangeType:
				in["op"] = "ChangeType"
				in["x"] = val(x.X)
			case *ssa.Convert:
				in["op"] = "Convert"
				in["x"] = val(x.X)
			case *ssa.MultiConvert:
				in["op"] = "Convert"
				in["x"] = val(x.X)
			case *ssa.SliceToArrayPointer:
				in["op"] = "SliceToArrayPointer"
				in["x"] = val(x.X)
			case *ssa.MakeInterface:
				in["op"] = "MakeInterface"
				in["x"] = val(x.X)
				in["xtype"] = typeID(x.X.Type())
				addMethodSet(x.X.Type())
			case *ssa.MakeClosure:
				in["op"] = "MakeClosure"
				in["fn"] = val(x.Fn)
				in["bindings"] = vals(x.Bindings)
			case *ssa.MakeMap:
				in["op"] = "MakeMap"
				if x.Reserve != nil {
					in["reserve"] = val(x.Reserve)
				}
			case *ssa.MakeChan:
				in["op"] = "MakeChan"
				in["size"] = val(x.Size)
			case *ssa.MakeSlice:
				in["op"] = "MakeSlice"
				in["len"] = val(x.Len)
				in["cap"] = val(x.Cap)
			case *ssa.Slice:
				in["op"] = "Slice"
				in["x"] = val(x.X)
				in["low"] = val(x.Low)
				in["high"] = val(x.High)
				in["max"] = val(x.Max)
			case *ssa.FieldAddr:
				in["op"] = "FieldAddr"
				in["x"] = val(x.X)
				in["field"] = x.Field
			case *ssa.Field:
				in["op"] = "Field"
				in["x"] = val(x.X)
				in["field"] = x.Field
			case *ssa.IndexAddr:
				in["op"] = "IndexAddr"
				in["x"] = val(x.X)
				in["index"] = val(x.Index)
			case *ssa.Index:
				in["op"] = "Index"
				in["x"] = val(x.X)
				in["index"] = val(x.Index)
			case *ssa.Lookup:
				in["op"] = "Lookup"
				in["x"] = val(x.X)
				in["index"] = val(x.Index)
				in["commaok"] = x.CommaOk
			case *ssa.Select:
				in["op"] = "Select"
				in["blocking"] = x.Blocking
				sts := []map[string]any{}
				for _, s := range x.States {
					st := map[string]any{"dir": int(s.Dir), "chan": val(s.Chan)}
					if s.Send != nil {
						st["send"] = val(s.Send)
					}
					sts = append(sts, st)
				}
				in["states"] = sts
			case *ssa.Range:
				in["op"] = "Range"
				in["x"] = val(x.X)
			case *ssa.Next:
				in["op"] = "Next"
				in["iter"] = val(x.Iter)
				in["isstring"] = x.IsString
			case *ssa.TypeAssert:
				in["op"] = "TypeAssert"
				in["x"] = val(x.X)
				in["asserted"] = typeID(x.AssertedType)
				in["commaok"] = x.CommaOk
				if !types.IsInterface(x.AssertedType) {
					addMethodSet(x.AssertedType)
				}
			case *ssa.Extract:
				in["op"] = "Extract"
				in["tuple"] = val(x.Tuple)
				in["index"] = x.Index
			case *ssa.Phi:
				in["op"] = "Phi"
				in["edges"] = vals(x.Edges)
				in["comment"] = x.Comment
			case *ssa.Jump:
				in["op"] = "Jump"
			case *ssa.If:
				in["op"] = "If"
				in["cond"] = val(x.Cond)
			case *ssa.Return:
				in["op"] = "Return"
				in["results"] = vals(x.Results)
			case *ssa.RunDefers:
				in["op"] = "RunDefers"
			case *ssa.Panic:
				in["op"] = "Panic"
				in["x"] = val(x.X)
			case *ssa.Send:
				in["op"] = "Send"
				in["chan"] = val(x.Chan)
				in["x"] = val(x.X)
			case *ssa.Store:
				in["op"] = "Store"
				in["addr"] = val(x.Addr)
				in["val"] = val(x.Val)
			case *ssa.MapUpdate:
				in["op"] = "MapUpdate"
				in["map"] = val(x.Map)
				in["key"] = val(x.Key)
				in["value"] = val(x.Value)
			default:
				in["op"] = "Unknown"
				in["go"] = fmt.Sprintf("%T", ins)
			}
			blk.Instrs = append(blk.Instrs, in)
			fn.NInstr++
		}
		fn.Blocks = append(fn.Blocks, blk)
	}
	for _, af := range f.AnonFuncs {
		_ = af // enqueued through MakeClosure operands
	}
}

type Config struct {
	Dir       string            `json:"dir"`
	Patterns  []string          `json:"patterns"`
	Overlay   map[string]string `json:"overlay"` // virtual path -> real file
	Entries   []string          `json:"entries"` // full function names
	ExecPkgs  []string          `json:"exec_pkgs"`
	ExecPfx   []string          `json:"exec_prefixes"`
	NoBody    []string          `json:"no_body"`
	Tags      string            `json:"tags"`
	MethodsOf []string          `json:"methods_of"` // type strings whose method sets are wanted
}

func main() {
	cfgPath := flag.String("config", "", "config json")
	outPath := flag.String("o", "", "output json")
	flag.Parse()
	var cfg Config
	b, err := os.ReadFile(*cfgPath)
	if err != nil {
		fatal(err)
	}
	if err := json.Unmarshal(b, &cfg); err != nil {
		fatal(err)
	}
	for _, p := range cfg.ExecPkgs {
		execPkg[p] = true
	}
	execPfx = cfg.ExecPfx
	for _, n := range cfg.NoBody {
		noBody[n] = true
	}
	ov := map[string][]byte{}
	for virt, real := range cfg.Overlay {
		data, err := os.ReadFile(real)
		if err != nil {
			fatal(err)
		}
		ov[virt] = data
		overlay[virt] = data
	}
	fset = token.NewFileSet()
	env := os.Environ()
	env = append(env, "GOFLAGS=-mod=mod", "GOPROXY=off", "GOTOOLCHAIN=auto")
	pcfg := &packages.Config{
		Mode:    packages.LoadAllSyntax,
		Dir:     cfg.Dir,
		Overlay: ov,
		Fset:    fset,
		Env:     env,
		Tests:   false,
	}
	if cfg.Tags != "" {
		pcfg.BuildFlags = []string{"-tags=" + cfg.Tags}
	}
	pkgs, err := packages.Load(pcfg, cfg.Patterns...)
	if err != nil {
		fatal(err)
	}
	nerr := 0
	packages.Visit(pkgs, nil, func(p *packages.Package) {
		for _, e := range p.Errors {
			fmt.Fprintln(os.Stderr, "load error:", e)
			nerr++
		}
	})
	if nerr > 0 {
		fatal(fmt.Errorf("%d package load errors", nerr))
	}
	sizes = types.SizesFor("gc", "amd64")
	var ssapkgs []*ssa.Package
	prog, ssapkgs = ssautil.AllPackages(pkgs, ssa.InstantiateGenerics)
	prog.Build()
	_ = ssapkgs

	// resolve entries
	byName := map[string]*ssa.Function{}
	for f := range ssautil.AllFunctions(prog) {
		byName[fname(f)] = f
	}
	for _, e := range cfg.Entries {
		f := byName[e]
		if f == nil {
			fatal(fmt.Errorf("entry %q not found", e))
		}
		enqueue(f)
		out.Entries = append(out.Entries, e)
	}
	// requested method sets
	if len(cfg.MethodsOf) > 0 {
		want := map[string]bool{}
		for _, m := range cfg.MethodsOf {
			want[m] = true
		}
		for _, t := range prog.RuntimeTypes() {
			if want[types.TypeString(t, nil)] {
				addMethodSet(t)
			}
		}
		for _, p := range prog.AllPackages() {
			for _, m := range p.Members {
				if tn, ok := m.(*ssa.Type); ok {
					t := tn.Type()
					if want[types.TypeString(t, nil)] {
						addMethodSet(t)
					}
					pt := types.NewPointer(t)
					if want[types.TypeString(pt, nil)] {
						addMethodSet(pt)
					}
				}
			}
		}
	}
	for len(work) > 0 {
		f := work[len(work)-1]
		work = work[:len(work)-1]
		export(f)
	}
	// deterministic output
	names := make([]string, 0, len(out.Functions))
	for n := range out.Functions {
		names = append(names, n)
	}
	sort.Strings(names)
	data, err := json.Marshal(out)
	if err != nil {
		fatal(err)
	}
	if *outPath == "" {
		os.Stdout.Write(data)
	} else {
		os.MkdirAll(filepath.Dir(*outPath), 0o755)
		if err := os.WriteFile(*outPath, data, 0o644); err != nil {
			fatal(err)
		}
	}
}

func fatal(err error) {
	fmt.Fprintln(os.Stderr, "ssaexport:", err)
	os.Exit(2)
}
