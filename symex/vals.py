"""Symbolic value domain for the Go SSA executor."""
import z3

TRUE = z3.BoolVal(True)
FALSE = z3.BoolVal(False)
BV64 = z3.BitVecSort(64)
StrSort = z3.DeclareSort("GoStr")
F64 = z3.Float64()
F32 = z3.Float32()
RNE = z3.RNE()
RTZ = z3.RTZ()


def is_true(c):
    return z3.is_true(c)


def is_false(c):
    return z3.is_false(c)


def bv(v, bits=64):
    return z3.BitVecVal(v, bits)


def is_const(t):
    return z3.is_bv_value(t) or z3.is_true(t) or z3.is_false(t)


def lit(c):
    """fold a comparison whose operands are all literals (z3py does not simplify `1 == 2`)"""
    try:
        n = c.num_args()
    except AttributeError:
        return c
    if n == 0 or n > 2:
        return c
    for i in range(n):
        a = c.arg(i)
        if not (z3.is_bv_value(a) or z3.is_true(a) or z3.is_false(a)):
            return c
    return z3.simplify(c)


def And(*cs):
    out = []
    for c in cs:
        c = lit(c)
        if z3.is_false(c):
            return FALSE
        if z3.is_true(c):
            continue
        out.append(c)
    if not out:
        return TRUE
    if len(out) == 1:
        return out[0]
    # cheap duplicate removal
    seen = set()
    o2 = []
    for c in out:
        k = c.get_id()
        if k not in seen:
            seen.add(k)
            o2.append(c)
    if len(o2) == 1:
        return o2[0]
    return z3.And(*o2)


def Or(*cs):
    out = []
    for c in cs:
        c = lit(c)
        if z3.is_true(c):
            return TRUE
        if z3.is_false(c):
            continue
        out.append(c)
    if not out:
        return FALSE
    if len(out) == 1:
        return out[0]
    seen = set()
    o2 = []
    for c in out:
        k = c.get_id()
        if k not in seen:
            seen.add(k)
            o2.append(c)
    # complementary pair -> true
    for c in o2:
        if z3.is_not(c) and c.arg(0).get_id() in seen:
            return TRUE
    if len(o2) == 1:
        return o2[0]
    return z3.Or(*o2)


def Not(c):
    c = lit(c)
    if z3.is_true(c):
        return FALSE
    if z3.is_false(c):
        return TRUE
    if z3.is_not(c):
        return c.arg(0)
    return z3.Not(c)


def simp(t):
    if isinstance(t, z3.ExprRef):
        return z3.simplify(t)
    return t


class SV:
    """struct value"""
    __slots__ = ("f",)

    def __init__(self, fields):
        self.f = tuple(fields)

    def __repr__(self):
        return "SV(%s)" % (", ".join(map(repr, self.f)))


class AV:
    """array backed by a python tuple (concrete length, non-integer elements)"""
    __slots__ = ("e",)

    def __init__(self, elems):
        self.e = tuple(elems)

    def __repr__(self):
        return "AV[%d]" % len(self.e)


import os as _os
_DEBUG_SYMIDX = bool(_os.environ.get("VERIF_DEBUG_SYMIDX"))
_NO_IDX_SIMP = bool(_os.environ.get("VERIF_NO_IDX_SIMP"))


class ZA:
    """array of integers backed by a z3 array (BV64 -> BVn) plus an overlay of
    values at concrete indexes (so that concrete-index code never touches the
    array theory). n = concrete length or None"""
    __slots__ = ("arr", "n", "ov", "_fl")

    def __init__(self, arr, n, ov=None):
        self.arr = arr
        self.n = n
        self.ov = ov or {}
        self._fl = None

    def flush(self):
        if not self.ov:
            return self.arr
        if self._fl is None:
            a = self.arr
            for k in sorted(self.ov):
                a = z3.Store(a, bv(k), self.ov[k])
            self._fl = a
        return self._fl

    def read(self, idx):
        if not z3.is_bv_value(idx) and not _NO_IDX_SIMP:
            i2 = z3.simplify(idx)     # constant expressions (header lengths read back from the buffer)
            if z3.is_bv_value(i2):
                idx = i2
        if z3.is_bv_value(idx):
            k = idx.as_long()
            v = self.ov.get(k)
            if v is not None:
                return v
            if z3.is_const(self.arr) or z3.is_K(self.arr):
                if z3.is_K(self.arr):
                    return self.arr.arg(0)
                return z3.Select(self.arr, idx)
            return z3.simplify(z3.Select(self.arr, idx))
        if _DEBUG_SYMIDX:
            import traceback, sys
            print("SYMIDX read idx=%s :: %s" % (str(idx)[:200].replace("\n", " "), " < ".join(f.name for f in traceback.extract_stack()[-9:-1])), file=sys.stderr)
        return z3.Select(self.flush(), idx)

    def write(self, idx, val, cc=None):
        """returns a new ZA; cc = condition under which the write happens (None = always)"""
        if not z3.is_bv_value(idx) and not _NO_IDX_SIMP:
            i2 = z3.simplify(idx)
            if z3.is_bv_value(i2):
                idx = i2
        if z3.is_bv_value(idx):
            k = idx.as_long()
            ov = dict(self.ov)
            if cc is None or z3.is_true(cc):
                ov[k] = val
            else:
                ov[k] = zif(cc, val, self.read(idx))
            return ZA(self.arr, self.n, ov)
        if _DEBUG_SYMIDX:
            import traceback, sys
            print("SYMIDX write idx=%s :: %s" % (str(idx)[:200].replace("\n", " "), " < ".join(f.name for f in traceback.extract_stack()[-7:-1])), file=sys.stderr)
        fl = self.flush()
        nv = val if (cc is None or z3.is_true(cc)) else zif(cc, val, z3.Select(fl, idx))
        return ZA(z3.Store(fl, idx, nv), self.n)

    def __repr__(self):
        return "ZA[%s]" % self.n


class Tgt:
    __slots__ = ("obj", "path", "idx")

    def __init__(self, obj, path=(), idx=None):
        self.obj = obj
        self.path = tuple(path)
        self.idx = idx

    def key(self):
        return (self.obj, self.path)

    def __repr__(self):
        return "Tgt(o%d,%s,%s)" % (self.obj, self.path, self.idx)


class Ptr:
    """guarded set of targets; tgt None = nil"""
    __slots__ = ("alts",)

    def __init__(self, alts):
        self.alts = tuple(alts)

    @staticmethod
    def nil():
        return Ptr(((TRUE, None),))

    @staticmethod
    def to(obj, path=(), idx=None):
        return Ptr(((TRUE, Tgt(obj, path, idx)),))

    def is_nil_cond(self):
        return Or(*[c for c, t in self.alts if t is None])

    def single(self):
        """the only target if concrete, else None"""
        if len(self.alts) == 1 and self.alts[0][1] is not None:
            return self.alts[0][1]
        return None

    def __repr__(self):
        return "Ptr(%s)" % (", ".join("%s" % (t,) for c, t in self.alts))


class Slice:
    __slots__ = ("base", "off", "len", "cap")

    def __init__(self, base, off, ln, cap):
        self.base = base
        self.off = off
        self.len = ln
        self.cap = cap

    @staticmethod
    def nil():
        z = bv(0)
        return Slice(Ptr.nil(), z, z, z)

    def __repr__(self):
        return "Slice(%s,off=%s,len=%s,cap=%s)" % (self.base, self.off, self.len, self.cap)


class Str:
    __slots__ = ("py", "term", "len", "ite")

    def __init__(self, py, term, ln, ite=None):
        self.py = py
        self.term = term
        self.len = ln
        self.ite = ite     # (cond, then Str, else Str) when this string is a merge of two strings

    def __repr__(self):
        return "Str(%r)" % (self.py if self.py is not None else self.term)


class Iface:
    """alts: (cond, typeid or None for nil, payload)"""
    __slots__ = ("alts",)

    def __init__(self, alts):
        self.alts = tuple(alts)

    @staticmethod
    def nil():
        return Iface(((TRUE, None, None),))

    def is_nil_cond(self):
        return Or(*[c for c, t, p in self.alts if t is None])

    def __repr__(self):
        return "Iface(%s)" % (", ".join("%s" % (t,) for c, t, p in self.alts))


class Clo:
    """function value: alts of (cond, fn name or None, bindings)"""
    __slots__ = ("alts",)

    def __init__(self, alts):
        self.alts = tuple(alts)

    @staticmethod
    def of(fn, bindings=()):
        return Clo(((TRUE, fn, tuple(bindings)),))

    @staticmethod
    def nil():
        return Clo(((TRUE, None, ()),))


class TV:
    """time.Time, abstract: nanoseconds since the Unix epoch as a signed 64-bit
    term (ns64 model) or a (sec, nsec) pair of 64-bit terms (pair model)."""
    __slots__ = ("ns", "sec", "nsec")

    def __init__(self, ns=None, sec=None, nsec=None):
        self.ns = ns
        self.sec = sec
        self.nsec = nsec

    def __repr__(self):
        return "TV(%s)" % (self.ns if self.ns is not None else (self.sec, self.nsec))


class Opaque:
    """opaque external object handle (e.g. *slog.Logger, prometheus counters)"""
    __slots__ = ("tag",)

    def __init__(self, tag):
        self.tag = tag

    def __repr__(self):
        return "Opaque(%s)" % self.tag


class MapV:
    """bounded association list: entries (present, key, val)"""
    __slots__ = ("ents",)

    def __init__(self, ents=()):
        self.ents = tuple(ents)


class ChanV:
    __slots__ = ("q", "closed")

    def __init__(self, q=(), closed=FALSE):
        self.q = tuple(q)
        self.closed = closed


def zexpr_eq(a, b):
    return a.eq(b)


def zif(c, a, b):
    c = lit(c)
    if z3.is_true(c):
        return a
    if z3.is_false(c):
        return b
    if a.eq(b):
        return a
    return z3.If(c, a, b)


def merge_ptr(c, a, b):
    alts = {}
    order = []

    def add(cond, t):
        if is_false(cond):
            return
        k = None if t is None else t.key()
        if k in alts:
            oc, ot = alts[k]
            if t is not None and t.idx is not None:
                if ot.idx.eq(t.idx):
                    nt = ot
                else:
                    nt = Tgt(t.obj, t.path, zif(cond, t.idx, ot.idx))
            else:
                nt = ot
            alts[k] = (Or(oc, cond), nt)
        else:
            alts[k] = (cond, t)
            order.append(k)
    for ac, at in a.alts:
        add(And(c, ac), at)
    nc = Not(c)
    for bc, bt in b.alts:
        add(And(nc, bc), bt)
    return Ptr([alts[k] for k in order])


def ite(c, a, b):
    """generic if-then-else over the value domain"""
    c = lit(c)
    if z3.is_true(c):
        return a
    if z3.is_false(c):
        return b
    if a is b:
        return a
    if isinstance(a, z3.ExprRef):
        if not isinstance(b, z3.ExprRef):
            raise TypeError("ite mismatch %r %r" % (a, b))
        return zif(c, a, b)
    if a is None or b is None:
        if a is None and b is None:
            return None
        raise TypeError("ite None mismatch %r %r" % (a, b))
    ta, tb = type(a), type(b)
    if ta is not tb:
        raise TypeError("ite type mismatch %r %r" % (a, b))
    if ta is SV:
        return SV([ite(c, x, y) for x, y in zip(a.f, b.f)])
    if ta is AV:
        return AV([ite(c, x, y) for x, y in zip(a.e, b.e)])
    if ta is ZA:
        n = a.n if a.n == b.n else None
        if a.arr.eq(b.arr):
            ov = {}
            for k in set(a.ov) | set(b.ov):
                ov[k] = zif(c, a.read(bv(k)), b.read(bv(k)))
            return ZA(a.arr, n, ov)
        return ZA(zif(c, a.flush(), b.flush()), n)
    if ta is Ptr:
        return merge_ptr(c, a, b)
    if ta is Slice:
        return Slice(merge_ptr(c, a.base, b.base), zif(c, a.off, b.off), zif(c, a.len, b.len), zif(c, a.cap, b.cap))
    if ta is Str:
        if a.py is not None and a.py == b.py:
            return a
        return Str(None, zif(c, a.term, b.term), zif(c, a.len, b.len), ite=(c, a, b))
    if ta is Iface:
        alts = [(And(c, ac), at, ap) for ac, at, ap in a.alts] + [(And(Not(c), bc), bt, bp) for bc, bt, bp in b.alts]
        return norm_iface(alts)
    if ta is Clo:
        alts = [(And(c, ac), f, bd) for ac, f, bd in a.alts] + [(And(Not(c), bc), f, bd) for bc, f, bd in b.alts]
        alts = [x for x in alts if not is_false(x[0])]
        # merge same fn
        out = []
        for cond, f, bd in alts:
            for i, (oc, of, obd) in enumerate(out):
                if of == f and len(obd) == len(bd):
                    out[i] = (Or(oc, cond), f, tuple(ite(cond, x, y) for x, y in zip(bd, obd)))
                    break
            else:
                out.append((cond, f, bd))
        return Clo(out)
    if ta is TV:
        if a.ns is not None:
            return TV(ns=zif(c, a.ns, b.ns))
        return TV(sec=zif(c, a.sec, b.sec), nsec=zif(c, a.nsec, b.nsec))
    if ta is tuple:
        return tuple(ite(c, x, y) for x, y in zip(a, b))
    if ta is Opaque:
        return a
    if ta is MapV:
        if len(a.ents) != len(b.ents):
            raise TypeError("ite over maps of different shape")
        return MapV([(zif(c, p1, p2), ite(c, k1, k2), ite(c, v1, v2)) for (p1, k1, v1), (p2, k2, v2) in zip(a.ents, b.ents)])
    if ta is ChanV:
        if len(a.q) != len(b.q):
            raise TypeError("ite over chans of different shape")
        return ChanV([ite(c, x, y) for x, y in zip(a.q, b.q)], zif(c, a.closed, b.closed))
    raise TypeError("ite: unsupported %r" % (a,))


def norm_iface(alts):
    out = []
    for cond, t, p in alts:
        if is_false(cond):
            continue
        for i, (oc, ot, op) in enumerate(out):
            if ot == t:
                if t is None:
                    out[i] = (Or(oc, cond), None, None)
                else:
                    try:
                        out[i] = (Or(oc, cond), t, ite(cond, p, op))
                    except TypeError:
                        continue
                break
        else:
            out.append((cond, t, p))
    return Iface(out)


def ptr_eq(a, b):
    cs = []
    for ac, at in a.alts:
        for bc, bt in b.alts:
            if at is None and bt is None:
                cs.append(And(ac, bc))
            elif at is None or bt is None:
                continue
            elif at.key() == bt.key():
                if at.idx is None and bt.idx is None:
                    cs.append(And(ac, bc))
                elif at.idx is not None and bt.idx is not None:
                    cs.append(And(ac, bc, at.idx == bt.idx))
    return Or(*cs)


def eq(a, b):
    """Go == over the value domain -> z3 Bool"""
    if isinstance(a, z3.ExprRef):
        if z3.is_fp(a):
            return z3.fpEQ(a, b)
        if a.eq(b):
            return TRUE
        if z3.is_bv_value(a) and z3.is_bv_value(b):
            return FALSE
        r = a == b
        return r
    ta = type(a)
    if ta is not type(b):
        raise TypeError("eq type mismatch %r %r" % (a, b))
    if ta is SV:
        return And(*[eq(x, y) for x, y in zip(a.f, b.f)])
    if ta is AV:
        return And(*[eq(x, y) for x, y in zip(a.e, b.e)])
    if ta is ZA:
        if a.n is None:
            raise TypeError("eq on unsized array")
        return And(*[eq(a.read(bv(i)), b.read(bv(i))) for i in range(a.n)])
    if ta is Ptr:
        return ptr_eq(a, b)
    if ta is Str:
        if a.py is not None and b.py is not None:
            return TRUE if a.py == b.py else FALSE
        return a.term == b.term
    if ta is Iface:
        cs = []
        for ac, at, ap in a.alts:
            for bc, bt, bp in b.alts:
                if at != bt:
                    continue
                if at is None:
                    cs.append(And(ac, bc))
                else:
                    cs.append(And(ac, bc, eq(ap, bp)))
        return Or(*cs)
    if ta is TV:
        if a.ns is not None:
            return a.ns == b.ns
        return And(a.sec == b.sec, a.nsec == b.nsec)
    if ta is tuple:
        return And(*[eq(x, y) for x, y in zip(a, b)])
    if ta is Opaque:
        return TRUE if a.tag == b.tag else FALSE
    if ta is Clo:
        # only nil comparisons are legal in Go
        raise TypeError("func comparison")
    raise TypeError("eq unsupported %r" % (a,))
