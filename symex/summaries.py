"""Summaries of repo functions used assume-guarantee style: the contract assumed here is an
obligation of another harness (named in the doc string)."""
import z3
from .vals import *

NTP_EPOCH = -2208988800


def install_time64_summary(E):
    """ntp.Time64FromTime(t) = {Seconds: uint32(t.Unix() - epoch), Fraction: frac(t.Nanosecond())}
    with frac an uninterpreted function that is strictly increasing on [0, 1e9).
    Guarantee: C04 harness 'orderfrac' (fraction-strictly-monotone) and 'fields' (seconds field),
    discharged on the real function."""
    frac = z3.Function("ntpfrac", BV64, z3.BitVecSort(32))
    apps = []

    def t64(E, name, args, ins):
        t = args[0]
        if t.ns is not None:
            raise Exception("Time64 summary needs the pair time model")
        sec = z3.Extract(31, 0, t.sec - bv(NTP_EPOCH))
        ns = t.nsec
        f = frac(ns)
        for (n2, f2) in apps:
            if n2.eq(ns):
                continue
            E.assume_global(z3.Implies(z3.ULT(ns, n2), z3.ULT(f, f2)), "Time64 summary: fraction strictly increasing in the nanoseconds")
            E.assume_global(z3.Implies(z3.ULT(n2, ns), z3.ULT(f2, f)), "Time64 summary: fraction strictly increasing in the nanoseconds")
        apps.append((ns, f))
        # exact definition, used only to refine a counterexample found under the abstraction
        exact = z3.Extract(31, 0, (ns << 32) / bv(1000000000))
        E.refinements.append(f == exact)
        return SV([sec, f])
    E.intercepts["example.com/scion-time/net/ntp.Time64FromTime"] = t64
    from . import stubs
    stubs.doc("ntp.Time64FromTime (summary)", t64.__doc__ or install_time64_summary.__doc__)
