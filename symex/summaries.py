"""Summaries of repo functions used assume-guarantee style: the contract assumed here is an
obligation of another harness (named in the doc string)."""
import z3
from .vals import *

NTP_EPOCH = -2208988800


def install_time64_summary(E):
    """ntp.Time64FromTime(t) = {Seconds: uint32(t.Unix() - epoch), Fraction: frac(t.Nanosecond())}
    with frac an uninterpreted function that is strictly increasing on [0, 1e9).
    Guarantee: C04 harness 'orderfrac' (fraction-strictly-monotone) and 'fields' (seconds field),
    discharged on the real function."""
    frac = z3.Function("ntpfrac", BV64, z3.BitVecSort(32))
    apps = []

    def t64(E, name, args, ins):
        t = args[0]
        if t.ns is not None:
            raise Exception("Time64 summary needs the pair time model")
        sec = z3.Extract(31, 0, t.sec - bv(NTP_EPOCH))
        ns = t.nsec
        f = frac(ns)
        for (n2, f2) in apps:
            if n2.eq(ns):
                continue
            E.assume_global(z3.Implies(z3.ULT(ns, n2), z3.ULT(f, f2)), "Time64 summary: fraction strictly increasing in the nanoseconds")
            E.assume_global(z3.Implies(z3.ULT(n2, ns), z3.ULT(f2, f)), "Time64 summary: fraction strictly increasing in the nanoseconds")
        apps.append((ns, f))
        # exact definition, used only to refine a counterexample found under the abstraction
        exact = z3.Extract(31, 0, (ns << 32) / bv(1000000000))
        E.refinements.append(f == exact)
        return SV([sec, f])
    E.intercepts["example.com/scion-time/net/ntp.Time64FromTime"] = t64
    from . import stubs
    stubs.doc("ntp.Time64FromTime (summary)", t64.__doc__ or install_time64_summary.__doc__)


def install_fp_duration_summaries(E):
    """timemath.Duration(x float64) and (time.Duration).Seconds() as uninterpreted functions with the
    sound facts: both are monotone (checked pairwise on the applications that occur), preserve sign and
    zero, Seconds is finite and bounded by 9.3e9, Duration(x) >= 1e9 for x >= 1 (x < 9.2e9)."""
    if E.cfg.get("exact_duration"):
        return
    conv = z3.Function("dur_of_seconds", F64, BV64)
    secs = z3.Function("seconds_of_dur", BV64, F64)
    capps, sapps = [], []
    zero = z3.FPVal(0.0, F64)

    def duration(E, name, args, ins):
        x = args[0]
        r = conv(x)
        ok = z3.And(z3.Not(z3.fpIsNaN(x)), z3.fpLT(z3.fpAbs(x), z3.FPVal(9.2e9, F64)))
        E.assume_global(z3.Implies(z3.And(ok, z3.fpGEQ(x, zero)), r >= 0), "Duration: sign")
        E.assume_global(z3.Implies(z3.And(ok, z3.fpLEQ(x, zero)), r <= 0), "Duration: sign")
        E.assume_global(z3.Implies(z3.And(ok, z3.fpGEQ(x, z3.FPVal(1.0, F64))), r >= 1000000000), "Duration(x) >= 1s for x >= 1")
        for (x2, r2) in capps:
            E.assume_global(z3.Implies(z3.And(ok, z3.fpLEQ(x, x2)), r <= r2), "Duration: monotone")
            E.assume_global(z3.Implies(z3.And(ok, z3.fpLEQ(x2, x)), r2 <= r), "Duration: monotone")
        capps.append((x, r))
        E.refinements.append(r == z3.fpToSBV(RTZ, z3.fpMul(RNE, x, z3.FPVal(1e9, F64)), BV64))
        return r
    E.intercepts["example.com/scion-time/base/timemath.Duration"] = duration

    def seconds(E, name, args, ins):
        d = args[0]
        r = secs(d)
        E.assume_global(z3.And(z3.Not(z3.fpIsNaN(r)), z3.fpLEQ(z3.fpAbs(r), z3.FPVal(9.3e9, F64))), "Seconds: finite, bounded")
        E.assume_global(z3.Implies(z3.And(d <= bv(1 << 62), d >= bv(-(1 << 62))), z3.fpLEQ(z3.fpAbs(r), z3.FPVal(4.7e9, F64))), "Seconds: |d| <= 2^62 ns => |seconds| <= 4.7e9")
        E.assume_global(z3.Implies(d >= 0, z3.fpGEQ(r, zero)), "Seconds: sign")
        E.assume_global(z3.Implies(d <= 0, z3.fpLEQ(r, zero)), "Seconds: sign")
        E.assume_global(z3.Implies(d > 0, z3.fpGT(r, zero)), "Seconds: strictly positive for positive durations")
        for (d2, r2) in sapps:
            E.assume_global(z3.Implies(d <= d2, z3.fpLEQ(r, r2)), "Seconds: monotone")
            E.assume_global(z3.Implies(d2 <= d, z3.fpLEQ(r2, r)), "Seconds: monotone")
        sapps.append((d, r))
        sec = d / bv(1000000000)
        nsec = z3.SRem(d, bv(1000000000))
        E.refinements.append(r == z3.fpAdd(RNE, z3.fpSignedToFP(RNE, sec, F64), z3.fpDiv(RNE, z3.fpSignedToFP(RNE, nsec, F64), z3.FPVal(1e9, F64))))
        return r
    E.intercepts["(time.Duration).Seconds"] = seconds
    from . import stubs
    stubs.doc("timemath.Duration / Duration.Seconds (summary)", install_fp_duration_summaries.__doc__)
