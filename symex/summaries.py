"""Summaries of repo functions used assume-guarantee style: the contract assumed here is an
obligation of another harness (named in the doc string)."""
import z3
from .vals import *

NTP_EPOCH = -2208988800


def install_time64_summary(E):
    """ntp.Time64FromTime(t) = {Seconds: uint32(t.Unix() - epoch), Fraction: frac(t.Nanosecond())}
    with frac an uninterpreted function that is strictly increasing on [0, 1e9).
    Guarantee: C04 harness 'orderfrac' (fraction-strictly-monotone) and 'fields' (seconds field),
    discharged on the real function."""
    frac = z3.Function("ntpfrac", BV64, z3.BitVecSort(32))
    apps = []

    ufS = z3.Function("ntp_sec_of_ns", BV64, z3.BitVecSort(32))
    ufF = z3.Function("ntp_frac_of_ns", BV64, z3.BitVecSort(32))

    def t64(E, name, args, ins):
        t = args[0]
        if t.ns is not None:
            # ns64 model: both fields are uninterpreted functions of the instant (congruence only);
            # the exact definition is used to refine counterexamples
            S, F = ufS(t.ns), ufF(t.ns)
            q = t.ns / bv(1000000000)
            r = z3.SRem(t.ns, bv(1000000000))
            sec = z3.If(r < 0, q - 1, q)
            nsec = z3.If(r < 0, r + 1000000000, r)
            E.refinements.append(z3.And(S == z3.Extract(31, 0, sec - bv(NTP_EPOCH)), F == z3.Extract(31, 0, (nsec << 32) / bv(1000000000))))
            return SV([S, F])
        sec = z3.Extract(31, 0, t.sec - bv(NTP_EPOCH))
        ns = t.nsec
        f = frac(ns)
        for (n2, f2) in apps:
            if n2.eq(ns):
                continue
            E.assume_global(z3.Implies(z3.ULT(ns, n2), z3.ULT(f, f2)), "Time64 summary: fraction strictly increasing in the nanoseconds")
            E.assume_global(z3.Implies(z3.ULT(n2, ns), z3.ULT(f2, f)), "Time64 summary: fraction strictly increasing in the nanoseconds")
        apps.append((ns, f))
        # exact definition, used only to refine a counterexample found under the abstraction
        exact = z3.Extract(31, 0, (ns << 32) / bv(1000000000))
        E.refinements.append(f == exact)
        return SV([sec, f])
    E.intercepts["example.com/scion-time/net/ntp.Time64FromTime"] = t64
    from . import stubs
    stubs.doc("ntp.Time64FromTime (summary)", t64.__doc__ or install_time64_summary.__doc__)


def install_fp_duration_summaries(E):
    """timemath.Duration(x float64) and (time.Duration).Seconds() as uninterpreted functions with the
    sound facts: both are monotone (checked pairwise on the applications that occur), preserve sign and
    zero, Seconds is finite and bounded by 9.3e9, Duration(x) >= 1e9 for x >= 1 (x < 9.2e9)."""
    if E.cfg.get("exact_duration"):
        return
    conv = z3.Function("dur_of_seconds", F64, BV64)
    secs = z3.Function("seconds_of_dur", BV64, F64)
    capps, sapps = [], []
    zero = z3.FPVal(0.0, F64)

    def duration(E, name, args, ins):
        x = args[0]
        r = conv(x)
        ok = z3.And(z3.Not(z3.fpIsNaN(x)), z3.fpLT(z3.fpAbs(x), z3.FPVal(9.2e9, F64)))
        E.assume_global(z3.Implies(z3.And(ok, z3.fpGEQ(x, zero)), r >= 0), "Duration: sign")
        E.assume_global(z3.Implies(z3.And(ok, z3.fpLEQ(x, zero)), r <= 0), "Duration: sign")
        E.assume_global(z3.Implies(z3.And(ok, z3.fpGEQ(x, z3.FPVal(1.0, F64))), r >= 1000000000), "Duration(x) >= 1s for x >= 1")
        for (x2, r2) in capps:
            E.assume_global(z3.Implies(z3.And(ok, z3.fpLEQ(x, x2)), r <= r2), "Duration: monotone")
            E.assume_global(z3.Implies(z3.And(ok, z3.fpLEQ(x2, x)), r2 <= r), "Duration: monotone")
        capps.append((x, r))
        E.refinements.append(r == z3.fpToSBV(RTZ, z3.fpMul(RNE, x, z3.FPVal(1e9, F64)), BV64))
        return r
    E.intercepts["example.com/scion-time/base/timemath.Duration"] = duration

    def seconds(E, name, args, ins):
        d = args[0]
        r = secs(d)
        E.assume_global(z3.And(z3.Not(z3.fpIsNaN(r)), z3.fpLEQ(z3.fpAbs(r), z3.FPVal(9.3e9, F64))), "Seconds: finite, bounded")
        E.assume_global(z3.Implies(z3.And(d <= bv(1 << 62), d >= bv(-(1 << 62))), z3.fpLEQ(z3.fpAbs(r), z3.FPVal(4.7e9, F64))), "Seconds: |d| <= 2^62 ns => |seconds| <= 4.7e9")
        E.assume_global(z3.Implies(d >= 0, z3.fpGEQ(r, zero)), "Seconds: sign")
        E.assume_global(z3.Implies(d <= 0, z3.fpLEQ(r, zero)), "Seconds: sign")
        E.assume_global(z3.Implies(d > 0, z3.fpGT(r, zero)), "Seconds: strictly positive for positive durations")
        for (d2, r2) in sapps:
            E.assume_global(z3.Implies(d <= d2, z3.fpLEQ(r, r2)), "Seconds: monotone")
            E.assume_global(z3.Implies(d2 <= d, z3.fpLEQ(r2, r)), "Seconds: monotone")
        sapps.append((d, r))
        sec = d / bv(1000000000)
        nsec = z3.SRem(d, bv(1000000000))
        E.refinements.append(r == z3.fpAdd(RNE, z3.fpSignedToFP(RNE, sec, F64), z3.fpDiv(RNE, z3.fpSignedToFP(RNE, nsec, F64), z3.FPVal(1e9, F64))))
        return r
    E.intercepts["(time.Duration).Seconds"] = seconds
    from . import stubs
    stubs.doc("timemath.Duration / Duration.Seconds (summary)", install_fp_duration_summaries.__doc__)


def install_timefrom64_summary(E):
    """ntp.TimeFromTime64(t, t0) = time.Unix(sec, nsec) with sec an uninterpreted function of (t.Seconds,
    t0.Unix()) and nsec an uninterpreted function of t.Fraction with 0 <= nsec < 1e9 (pair time model).
    Guarantee: C04 (round trip, order, fields) on the real function; counterexamples are re-solved with
    the exact definition before replay."""
    usec = z3.Function("ntp_back_sec", z3.BitVecSort(32), BV64, BV64)
    unsec = z3.Function("ntp_back_nsec", z3.BitVecSort(32), BV64)

    def tft(E, name, args, ins):
        t, t0 = args
        S, F = t.f[0], t.f[1]
        if t0.ns is not None:
            ufB = E.ghost.setdefault("ntp_back_ns_uf", z3.Function("ntp_back_ns", z3.BitVecSort(32), z3.BitVecSort(32), BV64, BV64))
            ns = ufB(S, F, t0.ns)
            q = t0.ns / bv(1000000000)
            r = z3.SRem(t0.ns, bv(1000000000))
            tref = z3.If(r < 0, q - 1, q)
            epoch = bv(NTP_EPOCH)
            era = bv(1 << 32)
            s0 = epoch + ((tref - epoch) / era) * era + z3.ZeroExt(32, S)
            half = bv(1 << 31)
            exact_sec = z3.If(s0 < tref - half, s0 + era, z3.If(s0 >= tref + half, s0 - era, s0))
            exact_ns = (z3.ZeroExt(32, F) * bv(1000000000)) >> 32
            E.refinements.append(ns == exact_sec * bv(1000000000) + exact_ns)
            # results stay within the modelled range (the harness keeps all instants inside one era)
            E.assume_global(z3.And(ns >= 0, ns < bv(1 << 62)), "TimeFromTime64 summary (ns64): result within 1970..2116")
            # C04's guarantees for a stamp produced by Time64FromTime(a): inside the +-2^31 s window the
            # round trip is within 1 ns and never later, and order is preserved
            if z3.is_app(S) and z3.is_app(F) and S.decl().name() == "ntp_sec_of_ns" and F.decl().name() == "ntp_frac_of_ns" and S.arg(0).eq(F.arg(0)):
                a = S.arg(0)
                win = bv((1 << 31) * 1000000000 - 1000000000)
                inwin = z3.And(a - t0.ns < win, t0.ns - a < win, a >= 0, t0.ns >= 0)
                E.assume_global(z3.Implies(inwin, z3.And(ns <= a, a - ns <= 1)), "TimeFromTime64(Time64FromTime(a)) in [a-1ns, a] inside the window (C04 roundtrip)")
                rts = E.ghost.setdefault("ntp_roundtrips", [])
                for (a2, ref2, r2, w2) in rts:
                    if ref2.eq(t0.ns):
                        E.assume_global(z3.Implies(z3.And(inwin, w2, a <= a2), ns <= r2), "conversion preserves order inside the window (C04 order)")
                        E.assume_global(z3.Implies(z3.And(inwin, w2, a2 <= a), r2 <= ns), "conversion preserves order inside the window (C04 order)")
                rts.append((a, t0.ns, ns, inwin))
            return TV(ns=ns)
        tref = t0.sec
        sec = usec(S, tref)
        ns = unsec(F)
        E.assume_global(z3.And(ns >= 0, ns < 1000000000), "TimeFromTime64 summary: nanoseconds in [0, 1e9)")
        # exact definition (refinement only)
        epoch = bv(NTP_EPOCH)
        era = bv(1 << 32)
        s0 = epoch + ((tref - epoch) / era) * era + z3.ZeroExt(32, S)
        half = bv(1 << 31)
        exact_sec = z3.If(s0 < tref - half, s0 + era, z3.If(s0 >= tref + half, s0 - era, s0))
        exact_ns = (z3.ZeroExt(32, F) * bv(1000000000)) >> 32
        E.refinements.append(z3.And(sec == exact_sec, ns == exact_ns))
        return TV(sec=sec, nsec=ns)
    E.intercepts["example.com/scion-time/net/ntp.TimeFromTime64"] = tft
    from . import stubs
    stubs.doc("ntp.TimeFromTime64 (summary)", install_timefrom64_summary.__doc__)
