"""Intercepted functions: the harness API (zzverif), the abstract time model,
contract stubs and no-effect stubs.  Every stub used in a run is listed in the
evidence of that run (engine.stats['stubs'])."""
import z3
import os, sys
from .vals import *

ZV = "example.com/scion-time/zzverif."
NS_PER_S = 1000000000

STUB_DOC = {}


def add_no_ovf(a, b):
    """signed addition does not overflow (portable encoding)"""
    n = a.size()
    s = z3.SignExt(1, a) + z3.SignExt(1, b)
    return z3.Extract(n, n, s) == z3.Extract(n - 1, n - 1, s)


def sub_no_ovf(a, b):
    n = a.size()
    s = z3.SignExt(1, a) - z3.SignExt(1, b)
    return z3.Extract(n, n, s) == z3.Extract(n - 1, n - 1, s)


def exactly_one(bs):
    cs = [z3.Or(*bs)] if len(bs) > 1 else [bs[0]]
    for i in range(len(bs)):
        for j in range(i + 1, len(bs)):
            cs.append(z3.Or(z3.Not(bs[i]), z3.Not(bs[j])))
    return z3.And(*cs) if len(cs) > 1 else cs[0]


def doc(name, text):
    STUB_DOC[name] = text


def install(E):
    I = E.intercepts
    # ---------------------------------------------------------- harness API
    def mk_int(bits, kind):
        def f(E, name, args, ins):
            nm = args[0].py
            return E.new_input(nm, kind, z3.BitVecSort(bits))
        return f
    for nm, bits in (("Int64", 64), ("Uint64", 64), ("Int", 64), ("Uint32", 32), ("Int32", 32), ("Uint16", 16), ("Int16", 16), ("Uint8", 8), ("Int8", 8), ("Byte", 8)):
        I[ZV + nm] = mk_int(bits, nm.lower())

    def v_bool(E, name, args, ins):
        return E.new_input(args[0].py, "bool", z3.BoolSort())
    I[ZV + "Bool"] = v_bool

    def v_float64(E, name, args, ins):
        return E.new_input(args[0].py, "float64", F64)
    I[ZV + "Float64"] = v_float64

    def v_bytes(E, name, args, ins):
        n = E.conc(args[1])
        if n is None:
            raise Exception("zzverif.Bytes needs a concrete length")
        arr = E.new_input(args[0].py, "bytes", z3.ArraySort(BV64, z3.BitVecSort(8)), n=n)
        oid = E.alloc(None, ZA(arr, n), name="input:" + args[0].py)
        return Slice(Ptr.to(oid), bv(0), bv(n), bv(n))
    I[ZV + "Bytes"] = v_bytes

    def v_int64s(E, name, args, ins):
        n = E.conc(args[1])
        arr = E.new_input(args[0].py, "int64s", z3.ArraySort(BV64, BV64), n=n)
        oid = E.alloc(None, ZA(arr, n), name="input:" + args[0].py)
        return Slice(Ptr.to(oid), bv(0), bv(n), bv(n))
    I[ZV + "Int64s"] = v_int64s

    def havoc_val(E, t, name):
        if t.kind == "named" and t.name == "time.Time":
            return E.mk_time_ns(E.new_input(name, "int64", BV64))
        u = t.under()
        k = u.kind
        if k == "int":
            return E.new_input(name, "int", z3.BitVecSort(u.d["bits"]))
        if k == "bool":
            return E.new_input(name, "bool", z3.BoolSort())
        if k == "float":
            return E.new_input(name, "float64", F64)
        if k == "struct":
            return SV([havoc_val(E, E.prog.type(f["type"]), name + "." + f["name"]) for f in u.d["fields"]])
        if k == "array":
            et = E.prog.type(u.d["elem"])
            n = u.d["len"]
            bits = E.int_elem_bits(et)
            if bits is not None:
                arr = E.new_input(name, "ints", z3.ArraySort(BV64, z3.BitVecSort(bits)), n=n)
                return ZA(arr, n)
            return AV([havoc_val(E, et, "%s[%d]" % (name, i)) for i in range(n)])
        return E.zero(t)

    def v_havoc(E, name, args, ins):
        nm = args[0].py
        ifc = args[1]
        (c, tid, ptr), = [a for a in ifc.alts if a[1] is not None]
        t = E.prog.type(tid).elem()
        E.store(ptr, havoc_val(E, t, nm))
        return None
    I[ZV + "Havoc"] = v_havoc

    # harness-controlled wall clock: SetNow / AdvanceNow; time.Now() returns it
    def v_setnow(E, name, args, ins):
        E.ghost["now"] = args[0]
        return None
    I[ZV + "SetNow"] = v_setnow

    def v_advnow(E, name, args, ins):
        cur = E.ghost["now"]
        E.ghost["now"] = ite(E.guard, I["(time.Time).Add"](E, name, [cur, args[0]], ins), cur)
        return None
    I[ZV + "AdvanceNow"] = v_advnow

    I[ZV + "Native"] = lambda E, name, args, ins: FALSE
    I[ZV + "Obligation"] = lambda E, name, args, ins: E.str_const("")

    def v_mapextra(E, name, args, ins):
        (c, tid, p), = [a for a in args[0].alts if a[1] is not None]
        t = p.single()
        E.ghost[("maplen_extra", t.obj)] = args[1]
        return None
    I[ZV + "MapExtraLen"] = v_mapextra

    def v_mutexheld(E, name, args, ins):
        (c, tid, p), = [a for a in args[0].alts if a[1] is not None]
        t = p.single()
        return E.mutexes.get((t.obj, t.path), FALSE)
    I[ZV + "MutexHeld"] = v_mutexheld

    def v_string(E, name, args, ins):
        nm = E.input_name(args[0].py)
        t = z3.Const(nm, StrSort)
        E.inputs[nm] = {"kind": "string", "term": t, "n": None}
        return Str(None, t, E.strlen(t))
    I[ZV + "String"] = v_string

    def v_assume(E, name, args, ins):
        E.assume(args[0], note="Assume@%s" % ins.get("pos", ""))
        return None
    I[ZV + "Assume"] = v_assume

    def v_assert(E, name, args, ins):
        E.oblige("assert", args[0], oid=args[1].py, pos=ins.get("pos", ""), narrow=False)
        return None
    I[ZV + "Assert"] = v_assert

    def v_reach(E, name, args, ins):
        E.oblige("reach", FALSE, oid="reach:" + args[0].py, pos=ins.get("pos", ""), narrow=False)
        E.obligations[-1].expect = "sat"
        return None
    I[ZV + "Reach"] = v_reach

    def v_panics(E, name, args, ins):
        from .engine import PanicScope
        sc = PanicScope(len(E.frames))
        E.panic_scopes.append(sc)
        g0 = E.guard
        try:
            E.call_closure(args[0], [], ins)
        finally:
            E.panic_scopes.pop()
        pg = Or(*sc.guards)
        E.guard = g0   # the harness continues whether or not the closure panicked
        return pg
    I[ZV + "Panics"] = v_panics

    def v_time_ns(E, name, args, ins):
        # time.Time from nanoseconds since the Unix epoch
        return mk_time_ns(E, args[0])
    I[ZV + "TimeNs"] = v_time_ns

    def v_time_unix(E, name, args, ins):
        return mk_time_unix(E, args[0], args[1])
    I[ZV + "TimeUnix"] = v_time_unix

    def v_opaque_f64(E, name, args, ins):
        # v.OpaqueMul(x, y): not used
        raise Exception("unused")

    # ---------------------------------------------------------- time model
    def mk_time_ns(E, ns):
        if E.time_mode == "ns64":
            return TV(ns=ns)
        sec = ns / bv(NS_PER_S)
        nsec = z3.SRem(ns, bv(NS_PER_S))
        neg = nsec < 0
        return TV(sec=zif(neg, sec - 1, sec), nsec=zif(neg, nsec + NS_PER_S, nsec))

    def mk_time_unix(E, sec, nsec):
        if E.time_mode == "ns64":
            return TV(ns=sec * bv(NS_PER_S) + nsec)
        # time.Unix normalises nsec into [0, 1e9)
        if z3.is_bv_value(z3.simplify(nsec)):
            n = z3.simplify(nsec).as_signed_long()
            q, r = divmod(n, NS_PER_S)
            return TV(sec=sec + bv(q), nsec=bv(r))
        inr = And(nsec >= 0, nsec < NS_PER_S)
        q = nsec / bv(NS_PER_S)
        r = z3.SRem(nsec, bv(NS_PER_S))
        neg = r < 0
        q2 = zif(neg, q - 1, q)
        r2 = zif(neg, r + NS_PER_S, r)
        return TV(sec=zif(inr, sec, sec + q2), nsec=zif(inr, nsec, r2))
    E.mk_time_ns = lambda ns: mk_time_ns(E, ns)
    E.mk_time_unix = lambda s, n: mk_time_unix(E, s, n)

    def t_unix(E, name, args, ins):
        return mk_time_unix(E, args[0], args[1])
    I["time.Unix"] = t_unix
    doc("time.Unix", "time.Unix(s,n): the instant s*1e9+n ns after the epoch (nsec normalised)")

    def t_utc(E, name, args, ins):
        return args[0]
    I["(time.Time).UTC"] = t_utc
    I["(time.Time).Local"] = t_utc
    I["(time.Time).Round"] = lambda E, name, args, ins: args[0]
    doc("(time.Time).UTC", "location changes do not change the instant")

    def t_unixsec(E, name, args, ins):
        t = args[0]
        if t.ns is not None:
            # floor division
            q = t.ns / bv(NS_PER_S)
            r = z3.SRem(t.ns, bv(NS_PER_S))
            return zif(r < 0, q - 1, q)
        return t.sec
    I["(time.Time).Unix"] = t_unixsec

    def t_nanosecond(E, name, args, ins):
        t = args[0]
        if t.ns is not None:
            r = z3.SRem(t.ns, bv(NS_PER_S))
            return zif(r < 0, r + NS_PER_S, r)
        return t.nsec
    I["(time.Time).Nanosecond"] = t_nanosecond

    def t_unixnano(E, name, args, ins):
        t = args[0]
        if t.ns is not None:
            return t.ns
        return t.sec * bv(NS_PER_S) + t.nsec
    I["(time.Time).UnixNano"] = t_unixnano

    def t_sub(E, name, args, ins):
        a, b = args[0], args[1]
        if a.ns is not None:
            d = a.ns - b.ns
            # no-saturation obligation: the model is only valid when the difference fits
            ok = sub_no_ovf(a.ns, b.ns)
            if not E.cfg.get("time_sub_unchecked", False):
                E.oblige("timerange", ok, pos=ins.get("pos", ""))
            return d
        ds = a.sec - b.sec
        lim = bv(9223372035)
        ok = And(ds < lim, ds > -lim)
        E.oblige("timerange", ok, pos=ins.get("pos", ""))
        return ds * bv(NS_PER_S) + (a.nsec - b.nsec)
    I["(time.Time).Sub"] = t_sub
    doc("(time.Time).Sub", "t.Sub(u) = difference of the instants in ns (obligation: no saturation)")

    def t_add(E, name, args, ins):
        a, d = args[0], args[1]
        if a.ns is not None:
            ok = add_no_ovf(a.ns, d)
            if not E.cfg.get("time_sub_unchecked", False):
                E.oblige("timerange", ok, pos=ins.get("pos", ""))
            return TV(ns=a.ns + d)
        dc = E.conc(d)
        if dc is not None and 0 <= dc < NS_PER_S:
            n = a.nsec + bv(dc)
            ov = n >= NS_PER_S
            return TV(sec=zif(ov, a.sec + 1, a.sec), nsec=zif(ov, n - NS_PER_S, n))
        ds = d / bv(NS_PER_S)
        dn = z3.SRem(d, bv(NS_PER_S))
        n = a.nsec + dn
        s = a.sec + ds
        ov = n >= NS_PER_S
        un = n < 0
        return TV(sec=zif(ov, s + 1, zif(un, s - 1, s)), nsec=zif(ov, n - NS_PER_S, zif(un, n + NS_PER_S, n)))
    I["(time.Time).Add"] = t_add

    def t_cmp(op):
        def f(E, name, args, ins):
            a, b = args[0], args[1]
            if a.ns is not None:
                x, y = a.ns, b.ns
                return {"lt": x < y, "gt": x > y, "eq": x == y}[op]
            lt = Or(a.sec < b.sec, And(a.sec == b.sec, a.nsec < b.nsec))
            gt = Or(a.sec > b.sec, And(a.sec == b.sec, a.nsec > b.nsec))
            return {"lt": lt, "gt": gt, "eq": And(a.sec == b.sec, a.nsec == b.nsec)}[op]
        return f
    I["(time.Time).Before"] = t_cmp("lt")
    I["(time.Time).After"] = t_cmp("gt")
    I["(time.Time).Equal"] = t_cmp("eq")

    def t_compare(E, name, args, ins):
        lt = t_cmp("lt")(E, name, args, ins)
        gt = t_cmp("gt")(E, name, args, ins)
        return zif(lt, bv(-1), zif(gt, bv(1), bv(0)))
    I["(time.Time).Compare"] = t_compare

    def t_iszero(E, name, args, ins):
        return eq(args[0], E.time_zero())
    I["(time.Time).IsZero"] = t_iszero

    def t_since(E, name, args, ins):
        now = E.call_function("time.Now", [], (), ins)
        return t_sub(E, name, [now, args[0]], ins)
    I["time.Since"] = t_since

    def t_now(E, name, args, ins):
        h = E.cfg.get("time_now")
        if h is not None:
            return h(E, ins)
        if "now" in E.ghost:
            return E.ghost["now"]
        ns = E.new_input("time.Now", "int64", BV64)
        return mk_time_ns(E, ns)
    I["time.Now"] = t_now
    doc("time.Now", "arbitrary instant per call (harness may constrain monotonicity)")

    # ---------------------------------------------------------- no-effect stubs
    def noop(E, name, args, ins):
        fn = E.prog.func(name)
        if fn is None:
            return None
        rs = fn.results
        if not rs:
            return None
        vals = []
        for tid in rs:
            t = E.prog.type(tid)
            if t.id == "error":
                vals.append(Iface.nil())
            else:
                vals.append(opaque_or_zero(E, t, name))
        return vals[0] if len(vals) == 1 else tuple(vals)

    def opaque_or_zero(E, t, name):
        u = t.under()
        if u.kind in ("ptr", "iface"):
            if u.kind == "iface":
                return Iface(((TRUE, "$opaque", Opaque(name)),))
            return Ptr.to(E.alloc(None, Opaque(name), name="opaque:" + name))
        return E.zero(t)
    for pfx in ("log/slog.", "(*log/slog.", "(log/slog.", "github.com/prometheus/", "(github.com/prometheus/", "(*github.com/prometheus/",
                "example.com/scion-time/net/ntp.LogPacket", "example.com/scion-time/net/nts.LogPacket",
                "example.com/scion-time/base/logbase.", "(*go.uber.org/zap", "go.uber.org/zap",
                "(*github.com/HdrHistogram", "github.com/HdrHistogram",
                "encoding/hex.", "fmt.Sprint", "fmt.Print", "fmt.Fprint", "log."):
        E.intercept_prefixes.append((pfx, noop))
    doc("log/slog.*, prometheus.*, hdrhistogram.*, fmt.Sprint*", "no effect on program state")

    def ctx_background(E, name, args, ins):
        return Iface(((TRUE, "$opaque", Opaque("context.Background")),))
    I["context.Background"] = ctx_background
    I["context.TODO"] = ctx_background

    def opaque_invoke(E, payload, method, args, ins):
        return None
    I["$invoke:$opaque.*"] = opaque_invoke

    def errors_new(E, name, args, ins):
        return E.err_token()
    I["errors.New"] = errors_new
    I["fmt.Errorf"] = errors_new
    doc("errors.New / fmt.Errorf", "fresh non-nil error token distinct from every other")

    def err_error(E, payload, method, args, ins):
        if method == "Error":
            return E.fresh_str("errmsg")
        raise Exception("method %s on error token" % method)
    I["$invoke:$err.*"] = err_error

    def errors_is(E, name, args, ins):
        return eq(args[0], args[1])
    I["errors.Is"] = errors_is

    # ---------------------------------------------------------- sync.Mutex ghost
    def mu_lock(E, name, args, ins):
        t = args[0].single()
        key = (t.obj, t.path) if t is not None else ("?",)
        held = E.mutexes.get(key, FALSE)
        E.oblige("lock", Not(held), oid="mutex.lock-while-held@%s" % ins.get("pos", ""), pos=ins.get("pos", ""))
        E.mutexes[key] = Or(held, E.guard)
        return None

    def mu_unlock(E, name, args, ins):
        t = args[0].single()
        key = (t.obj, t.path) if t is not None else ("?",)
        held = E.mutexes.get(key, FALSE)
        E.oblige("lock", held, oid="mutex.unlock-while-free@%s" % ins.get("pos", ""), pos=ins.get("pos", ""))
        E.mutexes[key] = And(held, Not(E.guard))
        return None
    I["(*sync.Mutex).Lock"] = mu_lock
    I["(*sync.Mutex).Unlock"] = mu_unlock
    I["(*sync.RWMutex).Lock"] = mu_lock
    I["(*sync.RWMutex).Unlock"] = mu_unlock
    I["(*sync.RWMutex).RLock"] = mu_lock
    I["(*sync.RWMutex).RUnlock"] = mu_unlock
    doc("sync.Mutex", "ghost 'held' flag; Lock while held / Unlock while free are obligation failures")

    # ---------------------------------------------------------- sorting contracts
    def sort_contract(E, sl, less_or_cmp, kind, ins):
        """replace slice content by an arbitrary permutation of it that is sorted"""
        n = E.conc(sl.len)
        if n is None:
            # symbolic length: case split over the possible lengths (bounded by the capacity)
            B = E.conc(sl.cap)
            if B is None or B > E.cfg.get("sort_len_bound", 8):
                B = E.cfg.get("sort_len_bound", 8)
                E.oblige("bound", z3.ULE(sl.len, bv(B)), oid="sort-len<=%d" % B)
            g0 = E.guard
            for k in range(2, B + 1):
                E.guard = And(g0, sl.len == k)
                if is_false(E.guard) or not E.feasible(E.guard):
                    continue
                sort_contract(E, Slice(sl.base, sl.off, bv(k), sl.cap), less_or_cmp, kind, ins)
            E.guard = g0
            return
        if n <= 1:
            return
        old = [E.slice_get(sl, bv(i)) for i in range(n)]
        # one-hot permutation matrix P[i][j]: new[i] = old[j]
        E.fresh_n += 1
        tag = E.fresh_n
        P = [[z3.Bool("perm!%d_%d_%d" % (tag, i, j)) for j in range(n)] for i in range(n)]
        cons = []
        for i in range(n):
            cons.append(exactly_one([P[i][j] for j in range(n)]))
        for j in range(n):
            cons.append(exactly_one([P[i][j] for i in range(n)]))
        new = []
        for i in range(n):
            v = old[n - 1]
            for j in range(n - 2, -1, -1):
                v = ite(P[i][j], old[j], v)
            new.append(v)
        for i in range(n):
            E.slice_set(sl, bv(i), new[i])
        for c in cons:
            E.assume(c, "sort contract: permutation")
        # sortedness by the real comparator on adjacent pairs
        for i in range(n - 1):
            E.assume(less_or_cmp(new[i], new[i + 1]), "sort contract: adjacent pairs ordered")
            # for counterexample search only: prefer inputs without ties (the real sort orders ties in a
            # way the contract leaves open, so a counterexample with ties may not replay)
            E.ghost.setdefault("tiebreak", []).append(Or(Not(E.guard), Not(less_or_cmp(new[i + 1], new[i]))))
        E.ghost.setdefault("sorts", []).append((tag, n))

    def slices_sort(E, name, args, ins):
        sl = args[0]
        fn = E.prog.func(name)
        et = E.prog.type(fn.params[0]["t"]).elem().under()
        if et.kind == "int":
            signed = et.d["signed"]
            le = (lambda a, b: a <= b) if signed else (lambda a, b: z3.ULE(a, b))
        else:
            raise Exception("slices.Sort on %s" % et.id)
        sort_contract(E, sl, le, "sort", ins)
        return None
    E.intercept_prefixes.append(("slices.Sort[", slices_sort))
    doc("slices.Sort / slices.SortFunc", "contract: the slice becomes an arbitrary permutation of itself (one-hot matrix) that is ordered w.r.t. the comparator (the repo's real comparator closure, executed symbolically on adjacent pairs); nothing else is modified")

    def slices_sortfunc(E, name, args, ins):
        sl, cmpf = args[0], args[1]

        def le(a, b):
            r = E.call_closure(cmpf, [a, b], ins)
            return r <= 0
        sort_contract(E, sl, le, "sortfunc", ins)
        return None
    E.intercept_prefixes.append(("slices.SortFunc[", slices_sortfunc))
    E.intercept_prefixes.append(("slices.SortStableFunc[", slices_sortfunc))

    # ---------------------------------------------------------- math
    def m_abs(E, name, args, ins):
        return z3.fpAbs(args[0])
    I["math.Abs"] = m_abs

    def m_ceil(E, name, args, ins):
        return z3.fpRoundToIntegral(z3.RTP(), args[0])
    I["math.Ceil"] = m_ceil

    def m_floor(E, name, args, ins):
        return z3.fpRoundToIntegral(z3.RTN(), args[0])
    I["math.Floor"] = m_floor

    def m_isnan(E, name, args, ins):
        return z3.fpIsNaN(args[0])
    I["math.IsNaN"] = m_isnan

    def m_isinf(E, name, args, ins):
        x, sign = args[0], args[1]
        pos = And(z3.fpIsInf(x), z3.fpIsPositive(x))
        neg = And(z3.fpIsInf(x), z3.fpIsNegative(x))
        return zif(sign > 0, pos, zif(sign < 0, neg, Or(pos, neg)))
    I["math.IsInf"] = m_isinf

    def m_sqrt(E, name, args, ins):
        if E.cfg.get("fp_sqrt", "opaque") == "exact":
            return z3.fpSqrt(RNE, args[0])
        f = E.ghost.setdefault("sqrt_uf", z3.Function("fpsqrt", F64, F64))
        r = f(args[0])
        return r
    I["math.Sqrt"] = m_sqrt

    def m_pow(E, name, args, ins):
        f = E.ghost.setdefault("pow_uf", z3.Function("fppow", F64, F64, F64))
        x, y = args
        r = f(x, y)
        zero, one = z3.FPVal(0.0, F64), z3.FPVal(1.0, F64)
        # sound fact: 0 <= x <= 1 and y >= 0 (not NaN)  =>  0 <= pow(x, y) <= 1
        E.assume_global(z3.Implies(z3.And(z3.fpGEQ(x, zero), z3.fpLEQ(x, one), z3.fpGEQ(y, zero)), z3.And(z3.fpGEQ(r, zero), z3.fpLEQ(r, one))), "math.Pow: base in [0,1], exponent >= 0 => result in [0,1]")
        return r
    I["math.Pow"] = m_pow
    doc("math.Sqrt / math.Pow", "uninterpreted functions (congruence only) unless configured exact")

    def m_f64bits(E, name, args, ins):
        return z3.fpToIEEEBV(args[0])
    I["math.Float64bits"] = m_f64bits

    def m_inf(E, name, args, ins):
        s = args[0]
        return zif(s >= 0, z3.fpPlusInfinity(F64), z3.fpMinusInfinity(F64))
    I["math.Inf"] = m_inf

    # time.Duration helpers executed by contract to avoid float division of constants
    def d_seconds(E, name, args, ins):
        d = args[0]
        sec = d / bv(NS_PER_S)
        nsec = z3.SRem(d, bv(NS_PER_S))
        return z3.fpAdd(RNE, z3.fpSignedToFP(RNE, sec, F64), E.fp_div(z3.fpSignedToFP(RNE, nsec, F64), z3.FPVal(1e9, F64)))
    I["(time.Duration).Seconds"] = d_seconds

    def d_abs(E, name, args, ins):
        d = args[0]
        return zif(d >= 0, d, zif(d == bv(-(1 << 63)), bv((1 << 63) - 1), -d))
    I["(time.Duration).Abs"] = d_abs
    I["(time.Duration).Nanoseconds"] = lambda E, name, args, ins: args[0]
    I["(time.Duration).Microseconds"] = lambda E, name, args, ins: args[0] / bv(1000)
    I["(time.Duration).Milliseconds"] = lambda E, name, args, ins: args[0] / bv(1000000)
    I["(time.Duration).String"] = lambda E, name, args, ins: E.fresh_str("durstr")

    # cmp.Compare on ints
    def cmp_compare(E, name, args, ins):
        fn = E.prog.func(name)
        t = E.prog.type(fn.params[0]["t"]).under()
        a, b = args
        if t.kind == "int":
            lt = (a < b) if t.d["signed"] else z3.ULT(a, b)
            gt = (a > b) if t.d["signed"] else z3.UGT(a, b)
            return zif(lt, bv(-1), zif(gt, bv(1), bv(0)))
        raise Exception("cmp.Compare on %s" % t.id)
    E.intercept_prefixes.append(("cmp.Compare[", cmp_compare))

    # bytes / subtle
    def bytes_equal(E, name, args, ins):
        a, b = args[0], args[1]
        na, nb = E.conc(a.len), E.conc(b.len)
        if na is None or nb is None:
            n = E.copy_bound
            cs = [a.len == b.len]
            g0 = E.guard
            E.oblige("bound", Or(a.len != b.len, z3.ULE(a.len, bv(n)), z3.ULE(b.len, bv(n))), oid="bytes.Equal-len@%s" % ins.get("pos", ""))
            for i in range(n):
                inb = And(z3.ULT(bv(i), a.len), a.len == b.len)
                E.guard = And(g0, inb)
                if is_false(E.guard):
                    continue
                cs.append(Or(Not(inb), E.slice_get(a, bv(i)) == E.slice_get(b, bv(i))))
            E.guard = g0
            return And(*cs)
        if na != nb:
            return FALSE
        return And(*[E.slice_get(a, bv(i)) == E.slice_get(b, bv(i)) for i in range(na)])
    I["bytes.Equal"] = bytes_equal

    def ct_compare(E, name, args, ins):
        r = bytes_equal(E, name, args, ins)
        return zif(r, bv(1), bv(0))
    I["crypto/subtle.ConstantTimeCompare"] = ct_compare

    # crypto/rand
    def rand_read(E, name, args, ins):
        sl = args[0]
        n = E.conc(sl.len)
        if n is None:
            raise Exception("rand.Read into slice of symbolic length")
        k = E.ghost.get("rand_n", 0)
        E.ghost["rand_n"] = k + 1
        arr = E.new_input("rand%d" % k, "bytes", z3.ArraySort(BV64, z3.BitVecSort(8)), n=n)
        for i in range(n):
            E.slice_set(sl, bv(i), z3.Select(arr, bv(i)))
        if E.cfg.get("rand_distinct"):
            # independently drawn nonces / identifiers do not collide (outside the claim: DESIGN 4.3)
            for (n2, arr2) in E.ghost.setdefault("rand_draws", []):
                if n2 == n and n >= 8:
                    E.assume_global(Or(*[z3.Select(arr, bv(i)) != z3.Select(arr2, bv(i)) for i in range(n)]), "crypto/rand: draws of %d bytes do not collide" % n)
            E.ghost["rand_draws"].append((n, arr))
        if E.cfg.get("rand_can_fail", False):
            return (sl.len, E.sym_error("randerr"))
        return (sl.len, Iface.nil())
    I["crypto/rand.Read"] = rand_read
    doc("crypto/rand.Read", "fills the buffer with fresh symbolic bytes (every output of the generator is covered); error nil unless rand_can_fail")

    # os.Exit etc.
    def os_exit(E, name, args, ins):
        E.oblige("panic", FALSE, oid="os.Exit@%s" % ins.get("pos", ""), pos=ins.get("pos", ""))
        E.guard = FALSE
        E.narrows += 1
        E.kills += 1
        return None
    I["os.Exit"] = os_exit

    # atomic
    def atomic_cas32(E, name, args, ins):
        p, old, new = args
        cur = E.load(p)
        ok = cur == old
        g0 = E.guard
        E.guard = And(g0, ok)
        E.store(p, new)
        E.guard = g0
        return ok
    I["sync/atomic.CompareAndSwapUint32"] = atomic_cas32
    I["sync/atomic.CompareAndSwapInt32"] = atomic_cas32

    def atomic_store(E, name, args, ins):
        E.store(args[0], args[1])
        return None
    I["sync/atomic.StoreUint32"] = atomic_store
    I["sync/atomic.StoreInt32"] = atomic_store
    I["sync/atomic.LoadUint32"] = lambda E, name, args, ins: E.load(args[0])
    doc("sync/atomic.*", "plain read/compare/write on the sequential ghost state")

    # sync/atomic.Value: an interface cell keyed by the address of the Value
    def av_key(p):
        t = p.single()
        if t is None:
            raise Exception("atomic.Value at non-concrete address")
        return ("atomicval", t.obj, t.path)

    def av_load(E, name, args, ins):
        return E.ghost.get(av_key(args[0]), Iface.nil())

    def av_store(E, name, args, ins):
        k = av_key(args[0])
        E.ghost[k] = ite(E.guard, args[1], E.ghost.get(k, Iface.nil()))
        return None

    def av_cas(E, name, args, ins):
        k = av_key(args[0])
        cur = E.ghost.get(k, Iface.nil())
        same = eq(cur, args[1])
        E.ghost[k] = ite(And(E.guard, same), args[2], cur)
        return same
    I["(*sync/atomic.Value).Load"] = av_load
    I["(*sync/atomic.Value).Store"] = av_store
    I["(*sync/atomic.Value).CompareAndSwap"] = av_cas

    def opaque_fill(E, t, tag):
        u = t.under()
        if u.kind == "iface":
            return Iface(((TRUE, "$opaque", Opaque(tag)),))
        if u.kind == "ptr":
            return Ptr.to(E.alloc(None, Opaque(tag), name="opaque:" + tag))
        if u.kind == "struct":
            return SV([opaque_fill(E, E.prog.type(f["type"]), tag + "." + f["name"]) for f in u.d["fields"]])
        return E.zero(t)
    E.opaque_fill = lambda t, tag: opaque_fill(E, t, tag)
    gi = E.cfg.setdefault("global_init", {})
    for g in E.cfg.get("opaque_globals", []):
        gi[g] = (lambda g: lambda E, t: opaque_fill(E, t, g))(g)


def install_aead(E):
    """Ideal AEAD (INT-CTXT + correctness) for github.com/miscreant/miscreant.go:
    NewAEAD(alg, key, 16): error iff len(key) not in {32, 64}.
    Seal(dst=nil, nonce, pt, ad): panics iff len(nonce) != 16; returns a fresh symbolic ciphertext of
    len(pt)+16 bytes and logs (key, nonce, pt, ad, ct).
    Open(dst=nil, nonce, ct, ad): panics iff len(nonce) != 16; succeeds (returning the logged plaintext)
    iff some logged tuple has byte-wise equal key, nonce, ciphertext and associated data; else error."""
    I = E.intercepts
    log = E.ghost.setdefault("aead_log", [])
    B = E.cfg.get("aead_bound", 192)

    def snap(sl, what):
        n = E.conc(sl.len)
        if n is None:
            n = B
            E.oblige("bound", z3.ULE(sl.len, bv(B)), oid="aead-%s-len<=%d" % (what, B))
        g0 = E.guard
        bs = []
        for i in range(n):
            inb = z3.ULT(bv(i), sl.len)
            if is_false(z3.simplify(inb)):
                bs.append(bv(0, 8))
                continue
            E.guard = And(g0, inb)
            try:
                bs.append(E.slice_get(sl, bv(i)))
            finally:
                E.guard = g0
        return (bs, sl.len)

    def whole_draw(bs):
        """the crypto/rand draw these bytes are a verbatim copy of (or None)"""
        arr0 = None
        for i, t in enumerate(bs):
            if not (z3.is_app(t) and t.decl().kind() == z3.Z3_OP_SELECT):
                return None
            arr, idx = t.arg(0), t.arg(1)
            if not (z3.is_bv_value(idx) and idx.as_long() == i):
                return None
            if arr0 is None:
                arr0 = arr
            elif not arr0.eq(arr):
                return None
        if arr0 is None:
            return None
        for (n, a) in E.ghost.get("rand_draws", []):
            if a.eq(arr0) and n == len(bs):
                return arr0
        return None

    def snap_eq(a, b):
        (ab, al), (bb, bl) = a, b
        cal, cbl = E.conc(al), E.conc(bl)
        if cal is not None and cbl is not None and cal != cbl:
            return FALSE
        if len(ab) == len(bb) and cal is not None and cal == cbl == len(ab):
            if all(x.eq(y) for x, y in zip(ab, bb)):
                return TRUE
            if E.cfg.get("rand_distinct") and len(ab) >= 8:
                da, db = whole_draw(ab), whole_draw(bb)
                if da is not None and db is not None and not da.eq(db):
                    # two different draws of the same length: assumed not to collide (see crypto/rand.Read)
                    return FALSE
        if os.environ.get("VERIF_DEBUG_AEAD"):
            print("snap_eq general:", len(ab), len(bb), al, bl, ab[0], bb[0], whole_draw(ab), whole_draw(bb), file=sys.stderr)
        cs = [al == bl]
        for i in range(min(len(ab), len(bb))):
            cs.append(Or(Not(z3.ULT(bv(i), al)), ab[i] == bb[i]))
        # any position beyond the shorter snapshot can only be inside both if lengths exceed it
        m = min(len(ab), len(bb))
        if len(ab) != len(bb):
            cs.append(z3.ULE(al, bv(m)))
        return And(*cs)

    def new_aead(E, name, args, ins):
        alg, key, nsz = args
        kl = key.len
        ok = Or(kl == 32, kl == 64)
        if not is_true(ok) and not is_false(ok):
            ok = z3.simplify(ok)
        k = snap(key, "key")
        err = E.err_token()
        val = Iface(((TRUE, "$aead", ("aead", k, E.conc(nsz))),))
        res = ite(ok, val, Iface.nil())
        return (res, ite(ok, Iface.nil(), err))
    I["github.com/miscreant/miscreant.go.NewAEAD"] = new_aead

    def aead_invoke(E, payload, method, args, ins):
        _, key, nsz = payload
        pos = ins.get("pos", "") if ins else ""
        if method == "NonceSize":
            return bv(nsz)
        if method == "Overhead":
            return bv(16)
        if method == "Seal":
            dst, nonce, pt, ad = args
            if not is_true(dst.base.is_nil_cond()) and E.conc(dst.len) != 0:
                raise Exception("AEAD.Seal with non-empty dst")
            E.oblige("panic", nonce.len == nsz, oid="aead.Seal-nonce-length@%s" % pos, pos=pos)
            n = snap(nonce, "nonce")
            p = snap(pt, "plaintext")
            a = snap(ad, "ad")
            E.fresh_n += 1
            ctarr = z3.Const("aead_ct!%d" % E.fresh_n, z3.ArraySort(BV64, z3.BitVecSort(8)))
            ctlen = z3.simplify(pt.len + 16)
            oid = E.alloc(None, ZA(ctarr, None), name="aead.ct")
            ct = Slice(Ptr.to(oid), bv(0), ctlen, ctlen)
            nct = E.conc(ctlen)
            cbs = [z3.Select(ctarr, bv(i)) for i in range(nct if nct is not None else len(p[0]) + 16)]
            log.append({"g": E.guard, "key": key, "nonce": n, "pt": p, "ad": a, "ct": (cbs, ctlen)})
            return ct
        if method == "Open":
            dst, nonce, ct, ad = args
            E.oblige("panic", nonce.len == nsz, oid="aead.Open-nonce-length@%s" % pos, pos=pos)
            if not log:
                # nothing was ever sealed: nothing can verify
                E.ghost.setdefault("aead_opens", []).append(FALSE)
                return (Slice.nil(), E.err_token())
            n = snap(nonce, "nonce")
            c = snap(ct, "ciphertext")
            a = snap(ad, "ad")
            ok = FALSE
            ptlen = z3.simplify(ct.len - 16)
            maxpt = max([len(e["pt"][0]) for e in log] + [0])
            ptb = [bv(0, 8)] * maxpt
            for e in log:
                m = And(e["g"], snap_eq(e["key"], key), snap_eq(e["nonce"], n), snap_eq(e["ct"], c), snap_eq(e["ad"], a))
                if is_false(m):
                    continue
                if not os.environ.get("VERIF_NO_AEAD_SIMP"):
                    m = E.ctx_value(m) if hasattr(E, "ctx_value") else m
                    if not is_true(m):
                        m = z3.simplify(m)
                        if is_false(m):
                            continue
                first = And(m, Not(ok))
                for i in range(len(e["pt"][0])):
                    ptb[i] = zif(first, e["pt"][0][i], ptb[i])
                ok = Or(ok, m)
            arr = z3.K(BV64, bv(0, 8))
            za = ZA(arr, None, {i: ptb[i] for i in range(maxpt)})
            oid = E.alloc(None, za, name="aead.pt")
            res = Slice(Ptr.to(oid), bv(0), ptlen, ptlen)
            E.ghost.setdefault("aead_opens", []).append(ok)
            return (ite(ok, res, Slice.nil()), ite(ok, Iface.nil(), E.err_token()))
        raise Exception("AEAD method %s" % method)
    I["$invoke:$aead.*"] = aead_invoke
    doc("miscreant AEAD (ideal)", install_aead.__doc__)


def install_stream(E):
    """bufio / encoding/binary.Read over a harness reader with fields {data []byte; pos int}:
    bufio.NewReader(r) wraps r; (*bufio.Reader).Read(p) forwards to r.Read(p) (one underlying read: an
    arbitrary 1..min(len p, remaining) bytes - the io.Reader contract); binary.Read(r, BigEndian, p) is
    io.ReadFull of sizeof(*p) bytes followed by a big-endian decode into the static type of *p, and
    io.ReadFull(r, buf) takes exactly len(buf) bytes or fails with io.EOF (nothing left) /
    io.ErrUnexpectedEOF (short), independently of the segmentation."""
    I = E.intercepts

    def inner_ptr(x):
        # x: Iface holding *bufio.Reader (our wrapper object) or Ptr to it
        if type(x) is Iface:
            (c, t, p), = [a for a in x.alts if a[1] is not None]
            x = p
        return x

    def new_reader(E, name, args, ins):
        r = args[0]   # io.Reader iface holding *c20reader
        oid = E.alloc(None, SV([r]), name="bufio.Reader")
        return Ptr.to(oid)
    I["bufio.NewReader"] = new_reader

    def under(E, br):
        v = E.load(inner_ptr(br))
        return v.f[0]

    def br_read(E, name, args, ins):
        r = under(E, args[0])
        return E.invoke(r, "Read", [args[1]], ins)
    I["(*bufio.Reader).Read"] = br_read

    EOF_TOK = E.ghost.setdefault("io.EOF", E.err_token())
    UEOF_TOK = E.ghost.setdefault("io.ErrUnexpectedEOF", E.err_token())
    E.cfg.setdefault("global_init", {})["io.EOF"] = lambda E, t: EOF_TOK
    E.cfg["global_init"]["io.ErrUnexpectedEOF"] = lambda E, t: UEOF_TOK

    def take(E, rd_iface, n, ins):
        """ReadFull semantics on the underlying {data,pos} reader: returns (list of n byte terms getter, ok, err)"""
        (c, t, p), = [a for a in rd_iface.alts if a[1] is not None]
        st = E.load(p)                 # SV([data Slice, pos])
        data, pos = st.f[0], st.f[1]
        rem = data.len - pos
        ok = And(rem >= n, n >= 0)
        err = ite(ok, Iface.nil(), ite(rem <= 0, EOF_TOK, UEOF_TOK))
        newpos = zif(ok, pos + n, data.len)
        E.ghost.setdefault("dbg_take", []).append((data.len, pos, n, ok))
        E.store(p, SV([data, newpos] + list(st.f[2:])))
        return data, pos, ok, err

    def binary_read(E, name, args, ins):
        r, order, dst = args
        rd = under(E, r) if type(r) is Iface and any(a[1] is not None and "bufio.Reader" in a[1] for a in r.alts) else r
        (c, tid, dp), = [a for a in dst.alts if a[1] is not None]
        pt = E.prog.type(tid)
        g0 = E.guard

        def be(data, pos, off, nbytes):
            val = None
            for i in range(nbytes):
                b = E.slice_get(data, pos + (off if isinstance(off, z3.ExprRef) else bv(off)) + bv(i))
                val = b if val is None else z3.Concat(val, b)
            return val
        if pt.under().kind == "slice":
            # data is a slice of fixed-size integers (e.g. []uint16): len(data)*size bytes, big endian
            sl = dp
            eu = pt.under().elem().under()
            if eu.kind != "int":
                raise Exception("binary.Read into slice of %s" % eu.kind)
            esz = eu.d["bits"] // 8
            n = sl.len
            data, pos, ok, err = take(E, rd, n * bv(esz), ins)
            nc = E.conc(n)
            if nc is None:
                nc = E.copy_bound
                E.oblige("bound", Or(Not(ok), z3.ULE(n, bv(nc))), oid="binary.Read-slice-len@%s" % ins.get("pos", ""))
            for i in range(nc):
                E.guard = And(g0, ok, z3.ULT(bv(i), n))
                if is_false(E.guard):
                    continue
                E.slice_set(sl, bv(i), be(data, pos, i * esz, esz))
            E.guard = g0
            return err
        et = pt.elem()
        u = et.under()
        if u.kind == "int":
            nb = u.d["bits"] // 8
            data, pos, ok, err = take(E, rd, bv(nb), ins)
            E.guard = And(g0, ok)
            if not is_false(E.guard):
                E.store(dp, be(data, pos, 0, nb))
            E.guard = g0
            return err
        if u.kind == "struct":
            fs = u.d["fields"]
            total = sum(E.prog.type(f["type"]).under().d["bits"] // 8 for f in fs)
            data, pos, ok, err = take(E, rd, bv(total), ins)
            E.guard = And(g0, ok)
            if not is_false(E.guard):
                off = 0
                vals = []
                for f in fs:
                    nb = E.prog.type(f["type"]).under().d["bits"] // 8
                    vals.append(be(data, pos, off, nb))
                    off += nb
                E.store(dp, SV(vals))
            E.guard = g0
            return err
        if u.kind == "slice":
            sl = E.load(dp)
            n = sl.len
            data, pos, ok, err = take(E, rd, n, ins)
            nc = E.conc(n)
            if nc is None:
                nc = E.copy_bound
                E.oblige("bound", Or(Not(ok), z3.ULE(n, bv(nc))), oid="binary.Read-slice-len@%s" % ins.get("pos", ""))
            for i in range(nc):
                E.guard = And(g0, ok, z3.ULT(bv(i), n))
                if is_false(E.guard):
                    continue
                E.slice_set(sl, bv(i), E.slice_get(data, pos + bv(i)))
            E.guard = g0
            return err
        raise Exception("binary.Read into %s" % et.id)
    I["encoding/binary.Read"] = binary_read

    def io_readfull(E, name, args, ins):
        r, buf = args
        rd = under(E, r) if type(r) is Iface and any(a[1] is not None and "bufio.Reader" in a[1] for a in r.alts) else r
        g0 = E.guard
        n = buf.len
        data, pos, ok, err = take(E, rd, n, ins)
        nc = E.conc(n)
        if nc is None:
            nc = E.copy_bound
            E.oblige("bound", Or(Not(ok), z3.ULE(n, bv(nc))), oid="io.ReadFull-len@%s" % ins.get("pos", ""))
        for i in range(nc):
            E.guard = And(g0, ok, z3.ULT(bv(i), n))
            if is_false(E.guard):
                continue
            E.slice_set(buf, bv(i), E.slice_get(data, pos + bv(i)))
        E.guard = g0
        return (zif(ok, n, bv(0)), err)
    I["io.ReadFull"] = io_readfull
    doc("bufio / binary.Read / io.ReadFull (stream model)", install_stream.__doc__)
