"""Query construction (SMT-LIB2 text) and the solver portfolio."""
import os
import re
import subprocess
import tempfile
import threading
import time
import shutil
import concurrent.futures as cf
import z3
from .vals import *

_tmpdir = None


def tmpdir():
    global _tmpdir
    if _tmpdir is None:
        _tmpdir = tempfile.mkdtemp(prefix="verifq-")
    return _tmpdir


def cleanup():
    global _tmpdir
    if _tmpdir and os.path.isdir(_tmpdir):
        shutil.rmtree(_tmpdir, ignore_errors=True)
    _tmpdir = None


_sym_cache = {}


_EMPTY = frozenset()


def symbols(t):
    """set of uninterpreted constant/function names in term t; memoised per DAG node (the node is kept
    alive in the cache because z3 reuses ast ids after collection)"""
    k = t.get_id()
    r = _sym_cache.get(k)
    if r is not None:
        return r[1]
    stack = [(t, False)]
    while stack:
        x, done = stack.pop()
        i = x.get_id()
        if i in _sym_cache:
            continue
        if not z3.is_app(x):
            _sym_cache[i] = (x, _EMPTY)
            continue
        ch = x.children()
        if not done:
            stack.append((x, True))
            for c in ch:
                if c.get_id() not in _sym_cache:
                    stack.append((c, False))
            continue
        d = x.decl()
        own = None
        if d.kind() == z3.Z3_OP_UNINTERPRETED:
            own = d.name()
        sets = [_sym_cache[c.get_id()][1] for c in ch]
        big = _EMPTY
        for s_ in sets:
            if len(s_) > len(big):
                big = s_
        res = big
        for s_ in sets:
            if s_ is not big and not s_ <= res:
                res = res | s_
        if own is not None and own not in res:
            res = res | frozenset((own,))
        _sym_cache[i] = (x, res)
    return _sym_cache[k][1]


def relevant(assumptions, terms):
    """cone of influence: assumptions transitively sharing symbols with terms"""
    need = set()
    for t in terms:
        need |= symbols(t)
    if len(_sym_cache) > 3000000:
        _sym_cache.clear()
    asyms = [symbols(a) for a in assumptions]
    used = [False] * len(assumptions)
    changed = True
    while changed:
        changed = False
        for i, s in enumerate(asyms):
            if used[i]:
                continue
            if not s or (s & need):
                used[i] = True
                if not s <= need:
                    need |= s
                    changed = True
    return [a for a, u in zip(assumptions, used) if u]


def logic_for(text):
    fp = "FloatingPoint" in text or "fp." in text or "RoundingMode" in text
    arr = "(Array" in text
    uf = "declare-sort" in text or re.search(r"\(declare-fun \S+ \([^)]", text) is not None
    if fp:
        if not arr and not uf:
            return "QF_BVFP"
        if arr and not uf:
            return "QF_ABVFP"
        return "ALL"
    if not arr and not uf:
        return "QF_BV"
    if uf and not arr:
        return "QF_UFBV"
    if arr and "(as const" not in text:
        return "QF_AUFBV" if uf else "QF_ABV"
    return "ALL"


class Query:
    def __init__(self, ob, assertions, value_terms):
        self.ob = ob
        self.assertions = assertions
        self.value_terms = value_terms
        self.text = None
        self.logic = None

    def smt2(self):
        if self.text is None:
            s = z3.Solver()
            for a in self.assertions:
                s.add(a)
            body = s.to_smt2()
            body = body.replace("(check-sat)", "")
            lines = [l for l in body.splitlines() if not l.startswith("(set-info") and not l.startswith("; ")]
            body = "\n".join(lines)
            for nm in ("bvsdiv", "bvudiv", "bvsrem", "bvurem", "bvsmod"):
                body = body.replace(nm + "_i", nm)
            self.logic = logic_for(body)
            self.body = body
            self.text = body
        return self.body

    def text_for(self, solver_kind, models=True):
        body = self.smt2()
        hdr = ""
        if models:
            hdr += "(set-option :produce-models true)\n"
        hdr += "(set-logic %s)\n" % self.logic
        tail = "(check-sat)\n"
        if models and self.value_terms:
            tail += "(get-value (%s))\n" % " ".join(self.value_terms)
        return hdr + body + "\n" + tail


SOLVERS = [
    ("z3", ["z3", "-smt2"]),
    ("z3-new", ["z3-new", "-smt2"]),
    ("cvc5", ["cvc5", "--lang=smt2"]),
    ("cvc5-int", ["cvc5", "--lang=smt2", "--solve-bv-as-int=sum"]),
]


def parse_sexpr(s):
    toks = re.findall(r"\(|\)|\|[^|]*\||\"[^\"]*\"|[^\s()]+", s)
    pos = 0

    def rd():
        nonlocal pos
        t = toks[pos]
        pos += 1
        if t == "(":
            l = []
            while toks[pos] != ")":
                l.append(rd())
            pos += 1
            return l
        return t
    out = []
    while pos < len(toks):
        out.append(rd())
    return out


def sexpr_to_value(v):
    """#x.. / #b.. / true/false / (fp ..) / (_ bvN w) / (- n) -> python int / bool / float bits"""
    if isinstance(v, str):
        if v.startswith("#x"):
            return int(v[2:], 16)
        if v.startswith("#b"):
            return int(v[2:], 2)
        if v == "true":
            return True
        if v == "false":
            return False
        try:
            return int(v)
        except ValueError:
            return v
    if isinstance(v, list):
        if len(v) == 3 and v[0] == "_" and v[1].startswith("bv"):
            return int(v[1][2:])
        if len(v) == 4 and v[0] == "fp":
            s, e, m = [sexpr_to_value(x) for x in v[1:]]
            return ("fpbits", (s << 63) | (e << 52) | m)
        if len(v) in (3, 4) and v[0] == "_" and v[1] in ("+oo", "-oo", "NaN", "+zero", "-zero"):
            return ("fpbits", {"+oo": 0x7ff0000000000000, "-oo": 0xfff0000000000000, "NaN": 0x7ff8000000000000, "+zero": 0, "-zero": 0x8000000000000000}[v[1]])
        if len(v) == 2 and v[0] == "-":
            return -sexpr_to_value(v[1])
    return ("raw", v)


def run_one(kind, cmd, path, timeout):
    t0 = time.time()
    try:
        if kind.startswith("z3"):
            full = cmd + ["-T:%d" % max(1, int(timeout)), path]
        else:
            full = cmd + ["--tlimit=%d" % int(timeout * 1000), path]
        p = subprocess.Popen(full, stdout=subprocess.PIPE, stderr=subprocess.STDOUT, text=True)
        return p, t0
    except Exception as e:
        return None, t0


def portfolio(q, timeout, solvers=None, want_model=True):
    """run the portfolio on one query. returns (status, solver, seconds, model dict or None, per-solver log)"""
    text = q.text_for("any", models=want_model)
    has_fp = "QF_BVFP" in text[:200] or "FloatingPoint" in text
    d = tmpdir()
    path = os.path.join(d, "q%d_%d.smt2" % (os.getpid(), id(q)))
    with open(path, "w") as f:
        f.write(text)
    procs = []
    for kind, cmd in SOLVERS:
        if solvers and kind not in solvers:
            continue
        if kind == "cvc5-int" and has_fp:
            continue
        p, t0 = run_one(kind, cmd, path, timeout)
        if p is not None:
            procs.append((kind, p, t0))
    result = ("unknown", None, 0.0, None)
    log = {}
    done = threading.Event()
    lock = threading.Lock()
    outs = {}

    def waiter(kind, p, t0):
        nonlocal result
        try:
            out, _ = p.communicate(timeout=timeout + 5)
        except subprocess.TimeoutExpired:
            p.kill()
            out = ""
        dt = time.time() - t0
        verdict = None
        bad = False
        lines = out.splitlines()
        rest_i = 0
        for i, l in enumerate(lines):
            ls = l.strip()
            if ls in ("sat", "unsat", "unknown", "timeout"):
                verdict = ls
                rest_i = i + 1
                break
            if "(error" in ls or ls.startswith("Error") or "error" in ls.lower():
                bad = True
        with lock:
            log[kind] = {"verdict": verdict if not bad else "error", "s": round(dt, 3)}
            if bad or verdict not in ("sat", "unsat"):
                return
            if result[0] in ("sat", "unsat"):
                if result[0] != verdict:
                    log["DISAGREE"] = True
                return
            model = None
            if verdict == "sat" and want_model:
                model = "\n".join(lines[rest_i:])
            result = (verdict, kind, dt, model)
            done.set()
    ths = []
    for kind, p, t0 in procs:
        th = threading.Thread(target=waiter, args=(kind, p, t0))
        th.start()
        ths.append(th)
    # wait for first decisive answer or all finished
    while True:
        if done.wait(0.05):
            break
        if all(not th.is_alive() for th in ths):
            break
    for kind, p, t0 in procs:
        if p.poll() is None:
            try:
                p.kill()
            except Exception:
                pass
    for th in ths:
        th.join()
    try:
        os.unlink(path)
    except OSError:
        pass
    status, kind, dt, model = result
    mvals = None
    if status == "sat" and model:
        mvals = {}
        if "(error" not in model:
            try:
                sx = parse_sexpr(model)
                for grp in sx:
                    for pair in grp:
                        if isinstance(pair, list) and len(pair) == 2:
                            key = pair[0] if isinstance(pair[0], str) else sexpr_str(pair[0])
                            mvals[key] = sexpr_to_value(pair[1])
            except Exception:
                mvals = None
        else:
            mvals = None
    return status, kind, dt, mvals, log


def sexpr_str(x):
    if isinstance(x, list):
        return "(" + " ".join(sexpr_str(y) for y in x) + ")"
    return x


def smt_sym(name):
    if re.match(r"^[A-Za-z_~!@$%^&*+=<>.?/\-][A-Za-z0-9_~!@$%^&*+=<>.?/\-]*$", name):
        return name
    return "|%s|" % name


def value_terms_for(E, used_syms):
    """SMT-LIB terms whose values make up a counterexample"""
    terms = []
    keys = []
    for nm, inp in E.inputs.items():
        if nm not in used_syms:
            continue
        s = smt_sym(nm)
        if inp["kind"] in ("bytes", "int64s", "ints"):
            for i in range(inp["n"] or 0):
                terms.append("(select %s #x%016x)" % (s, i))
                keys.append((nm, i))
        elif inp["kind"] == "string":
            continue
        else:
            terms.append(s)
            keys.append((nm, None))
    return terms, keys


def model_to_inputs(E, mvals, keys, terms):
    out = {}
    for t, (nm, i) in zip(terms, keys):
        v = mvals.get(t)
        if v is None:
            # solvers may print the term differently; try normalised
            v = mvals.get(t.replace("|", ""))
        if v is None:
            continue
        if isinstance(v, tuple) and v[0] == "fpbits":
            v = {"f64bits": v[1]}
        elif isinstance(v, tuple):
            continue
        if i is None:
            out[nm] = v
        else:
            out.setdefault(nm, {})[i] = v
    res = {}
    for nm, v in out.items():
        inp = E.inputs[nm]
        if inp["kind"] in ("bytes", "int64s", "ints"):
            res[nm] = [v.get(i, 0) for i in range(inp["n"])]
        else:
            res[nm] = v
    return res


def z3_model_inputs(E, m, used):
    res = {}
    for nm, inp in E.inputs.items():
        if nm not in used:
            continue
        t = inp["term"]
        k = inp["kind"]
        if k in ("bytes", "int64s", "ints"):
            res[nm] = [m.eval(z3.Select(t, bv(i)), model_completion=True).as_long() for i in range(inp["n"])]
        elif k == "bool":
            res[nm] = z3.is_true(m.eval(t, model_completion=True))
        elif k == "float64":
            if z3.is_true(m.eval(z3.fpIsNaN(t), model_completion=True)):
                res[nm] = {"f64bits": 0x7ff8000000000000}
            else:
                v = m.eval(z3.fpToIEEEBV(t), model_completion=True)
                res[nm] = {"f64bits": v.as_long()}
        elif k == "string":
            continue
        else:
            res[nm] = m.eval(t, model_completion=True).as_long()
    return res


def discharge(E, obs, tier="quick", jobs=None, log=None, inproc_ms=None, timeout=None, solvers=None, prefs=None):
    """prefs: optional side conditions a counterexample should satisfy so that it can be replayed natively"""
    stats = _discharge_par(E, obs, tier, jobs, log, inproc_ms, timeout, solvers, refine=False)
    prefs = list(prefs or [])
    if E.refinements or prefs:
        again = [o for o in obs if o.status == "sat" and o.kind != "reach"]
        if again:
            if log:
                log("  re-solving %d counterexample(s) with the exact definitions of summarised functions%s" % (len(again), " and replayability side conditions" if prefs else ""))
            saved = {id(o): (o.status, o.model, o.solver) for o in again}
            for o in again:
                o.note = "abstract-sat"
            base_ref = list(E.refinements)
            E.refinements = base_ref + prefs
            st2 = _discharge(E, again, tier, jobs, log, inproc_ms, timeout, solvers, refine=True)
            E.refinements = base_ref
            retry = []
            for o in again:
                if o.status != "sat" and prefs:
                    retry.append(o)
            if retry and base_ref:
                _discharge(E, retry, tier, jobs, log, inproc_ms, timeout, solvers, refine=True)
            elif retry:
                for o in retry:
                    o.status, o.model, o.solver = saved[id(o)]
            # a counterexample of the abstraction whose refinement no solver decides (neither confirmed nor
            # refuted) is still worth replaying: the native run is the ground truth for its input values
            for o in again:
                if o.status not in ("sat", "unsat", "trivial"):
                    st0, m0, sv0 = saved[id(o)]
                    if m0:
                        o.status, o.model, o.solver = st0, m0, sv0
                        o.note = "abstract-sat-unrefined"
            stats["solver_s"] += st2["solver_s"]
            stats["refined"] = len(again)
            for k, v in st2["by_solver"].items():
                stats["by_solver"][k] = stats["by_solver"].get(k, 0) + v
    return stats


def _discharge_par(E, obs, tier, jobs, log, inproc_ms, timeout, solvers, refine):
    """fork worker processes (each inherits the z3 terms) when there are many obligations"""
    import json
    nw = int(os.environ.get("VERIF_WORKERS") or E.cfg.get("workers", min(12, os.cpu_count() or 4)))
    todo = [o for o in obs]
    if len(todo) < 24 or nw <= 1 or os.environ.get("VERIF_NOFORK"):
        return _discharge(E, obs, tier, jobs, log, inproc_ms, timeout, solvers, refine)
    d = tmpdir()
    pids = []
    t0 = time.time()
    # dynamic distribution: the workers pull the next few obligations from a shared counter, so that a
    # handful of hard queries (each up to the portfolio time-out) end up on different workers
    import multiprocessing
    nxt = multiprocessing.Value("i", 0)
    chunk = max(1, min(8, len(todo) // (nw * 6)))
    for w in range(nw):
        path = os.path.join(d, "res_%d_%d.json" % (os.getpid(), w))
        pid = os.fork()
        if pid == 0:
            code = 0
            try:
                global _tmpdir
                _tmpdir = None
                res = []
                st = {"inproc": 0, "portfolio": 0, "solver_s": 0.0, "by_solver": {}}
                while True:
                    with nxt.get_lock():
                        lo = nxt.value
                        nxt.value = lo + chunk
                    if lo >= len(todo):
                        break
                    mine = list(enumerate(todo))[lo:lo + chunk]
                    s1 = _discharge(E, [o for _, o in mine], tier, 2, None, inproc_ms, timeout, solvers, refine)
                    res += [(i, o.status, o.solver, o.time, o.model, o.note) for i, o in mine]
                    st["inproc"] += s1["inproc"]
                    st["portfolio"] += s1["portfolio"]
                    st["solver_s"] += s1["solver_s"]
                    for k, v in s1["by_solver"].items():
                        st["by_solver"][k] = st["by_solver"].get(k, 0) + v
                    with open(path + ".tmp", "w") as f:
                        json.dump({"res": res, "stats": st}, f, default=str)
                    os.rename(path + ".tmp", path)
                cleanup()
            except BaseException as e:  # noqa
                import traceback
                traceback.print_exc()
                code = 3
            finally:
                os._exit(code)
        pids.append((pid, path, None))
    stats = {"inproc": 0, "portfolio": 0, "solver_s": 0.0, "by_solver": {}, "workers": nw}
    returned = set()
    for pid, path, mine in pids:
        _, status = os.waitpid(pid, 0)
        if not os.path.exists(path):
            continue
        with open(path) as f:
            data = json.load(f)
        os.unlink(path)
        for (i, st, solver, tm, model, note) in data["res"]:
            returned.add(i)
            o = todo[i]
            o.status, o.solver, o.time, o.model, o.note = st, solver, tm, model, note
        stt = data["stats"]
        stats["inproc"] += stt["inproc"]
        stats["portfolio"] += stt["portfolio"]
        stats["solver_s"] += stt["solver_s"]
        for k, v in stt["by_solver"].items():
            stats["by_solver"][k] = stats["by_solver"].get(k, 0) + v
    for i, o in enumerate(todo):
        if i not in returned:
            o.status = "unknown"
            o.note = "worker failed"
    stats["wall_s"] = time.time() - t0
    return stats


def _discharge(E, obs, tier, jobs, log, inproc_ms, timeout, solvers, refine):
    """decide every obligation.  Stage 1: in-process z3 with a short timeout.
    Stage 2: 4-way portfolio on SMT-LIB2 files."""
    timeout = int(os.environ.get("VERIF_TIMEOUT") or 0) or timeout or (90 if tier == "quick" else 600)
    inproc_ms = inproc_ms if inproc_ms is not None else (4000 if tier == "quick" else 5000)
    jobs = jobs or 5
    str_ax = E.str_axioms()
    pending = []
    stats = {"inproc": 0, "portfolio": 0, "solver_s": 0.0, "by_solver": {}}
    t_last = time.time()
    incremental = E.cfg.get("inproc_mode", "oneshot") == "incremental" and not refine
    inc = None
    inc_n = 0
    if incremental:
        inc = z3.Solver()
        inc.set("timeout", inproc_ms)
        for a in str_ax:
            inc.add(a)
    for k_ob, ob in enumerate(obs):
        if log and time.time() - t_last > 30:
            t_last = time.time()
            log("  ... %d/%d obligations tried in-process (%d undecided so far)" % (k_ob, len(obs), len(pending)))
        neg = Not(ob.claim)
        if is_false(ob.guard) or is_false(neg):
            ob.status = "trivial"
            ob.solver = "syntactic"
            continue
        terms = [ob.guard, neg]
        t0 = time.time()
        r = z3.unknown
        s = None
        if incremental:
            while inc_n < ob.assum_n:
                inc.add(E.assumptions[inc_n])
                inc_n += 1
            inc.push()
            for t in terms:
                if not is_true(t):
                    inc.add(t)
            try:
                r = inc.check()
            except z3.Z3Exception:
                r = z3.unknown
            s = inc
            asserts = None
        else:
            # assumptions are not retroactive: only those in force when the obligation was created
            rel = relevant(E.assumptions[:ob.assum_n] + str_ax + (E.refinements if refine else []), terms)
            asserts = rel + [t for t in terms if not is_true(t)]
            if inproc_ms > 0:
                s = z3.Solver()
                s.set("timeout", inproc_ms)
                for a in asserts:
                    s.add(a)
                try:
                    r = s.check()
                except z3.Z3Exception:
                    r = z3.unknown
        dt = time.time() - t0
        stats["solver_s"] += dt
        if r == z3.unsat:
            ob.status, ob.solver, ob.time = "unsat", "z3py", dt
            stats["inproc"] += 1
            stats["by_solver"]["z3py"] = stats["by_solver"].get("z3py", 0) + 1
        elif r == z3.sat:
            ob.status, ob.solver, ob.time = "sat", "z3py", dt
            used = set(E.inputs.keys()) if incremental else set().union(*[symbols(a) for a in asserts])
            ob.model = z3_model_inputs(E, s.model(), used)
            stats["inproc"] += 1
            stats["by_solver"]["z3py"] = stats["by_solver"].get("z3py", 0) + 1
        else:
            if asserts is None:
                rel = relevant(E.assumptions[:ob.assum_n] + str_ax, terms)
                asserts = rel + [t for t in terms if not is_true(t)]
            used = set()
            for a in asserts:
                used |= symbols(a)
            vt, keys = value_terms_for(E, used)
            q = Query(ob, asserts, vt)
            q.smt2()   # z3 is not thread-safe: print the query in the main thread
            pending.append((ob, q, keys, vt))
        if incremental:
            inc.pop()
    if pending:
        def work(item):
            ob, q, keys, vt = item
            want_model = True
            st, kind, dt, mvals, plog = portfolio(q, timeout, solvers=solvers, want_model=want_model)
            return item, st, kind, dt, mvals, plog
        with cf.ThreadPoolExecutor(max_workers=jobs) as ex:
            for item, st, kind, dt, mvals, plog in ex.map(work, pending):
                ob, q, keys, vt = item
                ob.status = st
                ob.solver = kind
                ob.time = dt
                ob.note = str(plog)
                stats["portfolio"] += 1
                stats["solver_s"] += dt
                if kind:
                    stats["by_solver"][kind] = stats["by_solver"].get(kind, 0) + 1
                if plog.get("DISAGREE"):
                    ob.status = "disagree"
                if st == "sat":
                    if mvals:
                        ob.model = model_to_inputs(E, mvals, keys, vt)
                    else:
                        ob.model = None
                if log:
                    log("  portfolio %s -> %s by %s in %.1fs %s" % (ob.id, st, kind, dt, plog))
    return stats


def resolve_with(E, ob, extra, timeout_ms=60000):
    """re-solve a violated obligation with extra constraints (e.g. tie-free inputs); returns input values or None"""
    s = z3.Solver()
    s.set("timeout", timeout_ms)
    for a in E.assumptions[:ob.assum_n] + E.str_axioms() + list(E.refinements) + list(extra):
        s.add(a)
    s.add(ob.guard)
    s.add(Not(ob.claim))
    try:
        r = s.check()
    except z3.Z3Exception:
        return None
    if r != z3.sat:
        return None
    return z3_model_inputs(E, s.model(), set(E.inputs.keys()))
