"""Scheduler model for go statements, channels, select and context (DESIGN 4.4, B.2, B.3).

* `go f(args)`: the goroutine body is executed at the spawn point, up to completion; its channel sends
  are queued on the channel ("sender blocked in its send, value ready").  Sound for goroutines whose
  only externally visible effect is what they send / store into locations nobody else touches before the
  matching receive (checked by construction of the harnesses; stated in the evidence).
* unbuffered channel: a list of pending sends (guard, value, taken).  A plain receive `<-c` takes ANY
  pending send (which one is a fresh symbolic choice); receiving with nothing pending is an obligation
  failure ("would block forever").
* `select { case m := <-c: ...; case <-ctx.Done(): ... }`: each evaluation draws a symbolic event: either the
  context has fired (monotone flag per context) and the done case is taken, or some pending send is
  received.  When both are possible either may be chosen (Go picks at random).  A select at which nothing
  is ready blocks until something is: not an event, hence not modelled (the context never firing while a
  sender never becomes ready is outside the claim).
* a send case in a select (`select { case c <- v: ...; case <-ctx.Done(): ... }`, executed in a goroutine body at
  its spawn point): taking the send case is always possible and queues the value like a plain send; the
  done case is possible when the context has fired by then (the deadline passing before the sender gets
  to its select - every such schedule is a real one; a deadline that passes only while the sender already
  waits in the select is not explored).  A value whose send case is not taken is never offered, so a
  receiver that counts on it is reported as waiting forever.
* context.Background / WithTimeout / WithCancel: abstract contexts with a monotone symbolic 'fired' flag.
"""
import z3
from .vals import *

DOC = __doc__


class Chan:
    def __init__(self, name):
        self.name = name
        self.sends = []      # dicts: g (guard), v (value), taken (z3 bool), at (event index at which it was received; 255 = never)
        self.is_done = None  # context id if this is a ctx.Done() channel


NEVER = 255


def next_event(E):
    """index of the scheduling event (a select evaluation or a plain receive) that happens now"""
    evt = E.ghost.get("sched_evt")
    if evt is None:
        evt = z3.BitVecVal(0, 8)
    E.ghost["sched_evt"] = z3.simplify(z3.If(E.guard, evt + 1, evt)) if not is_true(E.guard) else z3.simplify(evt + 1)
    return evt


def install(E):
    I = E.intercepts
    chans = E.ghost.setdefault("chans", {})
    ctxs = E.ghost.setdefault("ctxs", {})

    def chan_of(p):
        t = p.single()
        if t is None:
            raise Exception("channel value is not a single concrete object")
        c = chans.get(t.obj)
        if c is None:
            c = chans[t.obj] = Chan("chan%d" % t.obj)
        return c

    def go_stmt(E, frame, ins, kind, target, args):
        # run the goroutine body now
        g0 = E.guard
        E.stats["goroutines"] = E.stats.get("goroutines", 0) + 1
        gid0 = E.ghost.get("sched_gid", 0)
        E.ghost["sched_ngo"] = E.ghost.get("sched_ngo", 0) + 1
        E.ghost["sched_gid"] = E.ghost["sched_ngo"]
        try:
            E.do_call(frame, ins, kind, target, args)
        finally:
            # a goroutine that panics takes the process down: obligations were recorded inside;
            # the spawner continues regardless
            E.guard = g0
            E.ghost["sched_gid"] = gid0
        return None
    I["$go"] = go_stmt

    def send(E, frame, ins, ch, val):
        c = chan_of(ch)
        c.sends.append({"g": E.guard, "v": val, "taken": FALSE, "at": z3.BitVecVal(NEVER, 8)})
        return None
    I["$send"] = send

    def pending(c):
        return [s for s in c.sends]

    def waited(E, cond=TRUE):
        """the goroutine that waits here has already taken a deadline case: it waits past its deadline"""
        gid = E.ghost.get("sched_gid", 0)
        d = E.ghost.setdefault("sched_done_taken", {}).get(gid, FALSE)
        if is_false(d):
            return
        w = E.ghost.setdefault("sched_late_waits", {})
        w[gid] = Or(w.get(gid, FALSE), And(E.guard, cond, d))

    def take_any(E, c, what, pos, cond=TRUE, evt=None):
        """receive from any pending send under extra condition cond; returns (value, possible)"""
        cands = []
        for k, s in enumerate(c.sends):
            avail = And(s["g"], Not(s["taken"]))
            if is_false(avail):
                continue
            cands.append((k, s, avail))
        if not cands:
            return None, FALSE
        possible = Or(*[a for _, _, a in cands])
        pick = E.new_input("sched.pick", "int", z3.BitVecSort(8))
        val = None
        chosen = []
        for k, s, avail in cands:
            sel = And(avail, pick == k)
            chosen.append(sel)
            val = s["v"] if val is None else ite(sel, s["v"], val)
        # the choice is one of the available sends
        E.assume(z3.Implies(And(cond, possible), Or(*chosen)), "scheduler: a receive takes one of the pending sends")
        g = And(E.guard, cond)
        for (k, s, avail), sel in zip(cands, chosen):
            s["taken"] = Or(s["taken"], And(g, sel))
            if evt is not None:
                s["at"] = z3.If(And(g, sel), evt, s["at"])
        return val, possible

    def recv(E, frame, ins, ch):
        c = chan_of(ch)
        pos = ins.get("pos", "")
        waited(E)
        val, possible = take_any(E, c, "recv", pos, evt=next_event(E))
        E.oblige("deadlock", possible, oid="recv-would-block-forever@%s" % pos, pos=pos)
        if val is None:
            from .engine import DeadPath
            raise DeadPath("receive with nothing pending")
        if ins.get("commaok"):
            return (val, TRUE)
        return val
    I["$recv"] = recv

    def select(E, frame, ins, states):
        pos = ins.get("pos", "")
        if not ins.get("blocking", True):
            raise Exception("non-blocking select not modelled")
        # states: (dir, chan, sendval); dir 2 = recv (types.RecvOnly), 1 = send
        ready = []
        vals = []
        waited(E)
        evt = next_event(E)
        fires = []
        for i, (d, ch, sv) in enumerate(states):
            c = chan_of(ch)
            if c.is_done is not None:
                cx = ctxs[c.is_done]
                # the context may fire now (monotone)
                fire = E.new_input("sched.fire", "bool", z3.BoolSort())
                first = And(E.guard, fire, Not(cx["fired"]))
                cx["fired_at"] = z3.If(first, evt, cx["fired_at"])
                cx["fired"] = Or(cx["fired"], And(E.guard, fire))
                ready.append(cx["fired"])
                vals.append(None)
                fires.append((i, fire))
            elif d == 1:
                # send case: like a plain send, the sender offers its value and is matched by whoever
                # receives it later ("sender blocked in its send, value ready"); taking this case is always
                # possible, the other cases of the same select are possible under their own conditions
                ready.append(TRUE)
                vals.append(c)
            else:
                avail = Or(*[And(s["g"], Not(s["taken"])) for s in c.sends]) if c.sends else FALSE
                ready.append(avail)
                vals.append(c)
        choice = E.new_input("sched.case", "int", z3.BitVecSort(8))
        anyready = Or(*ready)
        # something is ready (a select with nothing ready waits; not an event)
        E.assume(anyready, "scheduler: select evaluated when at least one case is ready")
        E.assume(Or(*[And(choice == i, r) for i, r in enumerate(ready)]), "scheduler: select takes a ready case")
        # replayability: a deadline that fires at a select is the case that select takes
        for i, fire in fires:
            E.ghost.setdefault("sched_prefs", []).append(z3.Implies(And(E.guard, fire), choice == i))
            gid = E.ghost.get("sched_gid", 0)
            dt = E.ghost.setdefault("sched_done_taken", {})
            dt[gid] = Or(dt.get(gid, FALSE), And(E.guard, choice == i))
        tt = E.prog.type(ins["type"]).d["elems"]
        out = [z3.ZeroExt(56, choice), TRUE]
        k = 2
        for i, (d, ch, sv) in enumerate(states):
            if d == 1:
                # the value is offered only when this case is the one taken (no result element)
                vals[i].sends.append({"g": And(E.guard, choice == i), "v": sv, "taken": FALSE, "at": z3.BitVecVal(NEVER, 8)})
                continue
            c = vals[i]
            if c is None:
                out.append(E.zero(E.prog.type(tt[k])))
            else:
                v, possible = take_any(E, c, "select", pos, cond=(choice == i), evt=evt)
                out.append(v if v is not None else E.zero(E.prog.type(tt[k])))
            k += 1
        return tuple(out)
    I["$select"] = select

    # ---------------------------------------------------------------- contexts
    def new_ctx(parent=None):
        cid = len(ctxs)
        ctxs[cid] = {"fired": FALSE if parent is None else ctxs[parent]["fired"], "parent": parent, "chan": None,
                     "fired_at": z3.BitVecVal(NEVER, 8) if parent is None else ctxs[parent]["fired_at"]}
        return cid

    def ctx_val(cid):
        return Iface(((TRUE, "$ctx", bv(cid)),))

    def background(E, name, args, ins):
        return ctx_val(new_ctx())
    I["context.Background"] = background
    I["context.TODO"] = background

    def cid_of(x):
        (c, t, p), = [a for a in x.alts if a[1] is not None]
        if t != "$ctx":
            raise Exception("context of type %s" % t)
        return p.as_long()

    def with_timeout(E, name, args, ins):
        cid = new_ctx(cid_of(args[0]))
        E.intercepts["$cancel%d" % cid] = lambda E, name, a, i: None
        return (ctx_val(cid), Clo.of("$cancel%d" % cid))
    I["context.WithTimeout"] = with_timeout
    I["context.WithCancel"] = with_timeout
    I["context.WithDeadline"] = with_timeout

    def ctx_invoke(E, payload, method, args, ins):
        cid = payload.as_long()
        cx = ctxs[cid]
        if method == "Done":
            if cx["chan"] is None:
                oid = E.alloc(None, ChanV(()), name="ctx.Done")
                cx["chan"] = oid
                ch = chans[oid] = Chan("done%d" % cid)
                ch.is_done = cid
            return Ptr.to(cx["chan"])
        if method == "Err":
            return ite(cx["fired"], E.err_token(), Iface.nil())
        if method == "Deadline":
            ok = E.fresh_bool("ctx_has_deadline")
            dl = E.fresh_bv("ctx_deadline", 64)
            E.ghost.setdefault("ctx_deadlines", []).append((ok, dl))
            return (E.mk_time_ns(dl), ok)
        if method == "Value":
            return Iface.nil()
        raise Exception("context method %s" % method)
    I["$invoke:$ctx.*"] = ctx_invoke

    # harness access to the ghost state
    ZV = "example.com/scion-time/zzverif."

    def blocked_senders(E, name, args, ins):
        n = bv(0)
        for c in chans.values():
            for s in c.sends:
                n = n + zif(And(s["g"], Not(s["taken"])), bv(1), bv(0))
        return z3.simplify(n)
    I[ZV + "BlockedSenders"] = blocked_senders

    def ctx_fired(E, name, args, ins):
        return ctxs[cid_of(args[0])]["fired"]
    I[ZV + "CtxFired"] = ctx_fired

    def late_waits(E, name, args, ins):
        """number of goroutines that waited (select / receive) after having taken a deadline case"""
        n = bv(0)
        for gid, w in E.ghost.get("sched_late_waits", {}).items():
            n = n + zif(w, bv(1), bv(0))
        return z3.simplify(n)
    I[ZV + "WaitsAfterDeadline"] = late_waits

    from . import stubs
    stubs.doc("go / channels / select / context (scheduler model)", DOC)


def native_feasible(E):
    """replayability side conditions + derived schedule inputs for the native (testing/synctest) replay:
    sched.at.<k> = index of the scheduling event at which the k-th send was received (255: never),
    sched.fired_at = index of the select at which the (first) context fired (255: never)"""
    cs = list(E.ghost.get("sched_prefs", []))
    k = 0
    for oid, c in sorted(E.ghost.get("chans", {}).items()):
        if c.is_done is not None:
            continue
        for s in c.sends:
            t = E.new_input("sched.at.%d" % k, "int", z3.BitVecSort(8))
            cs.append(t == s["at"])
            k += 1
    for cid, cx in sorted(E.ghost.get("ctxs", {}).items()):
        t = E.new_input("sched.fired_at.%d" % cid, "int", z3.BitVecSort(8))
        cs.append(t == cx["fired_at"])
    return cs
