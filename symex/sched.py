"""Scheduler model for go statements, channels, select and context (DESIGN 4.4, B.2, B.3).

* `go f(args)`: the goroutine body is executed at the spawn point, up to completion; its channel sends
  are queued on the channel ("sender blocked in its send, value ready").  Sound for goroutines whose
  only externally visible effect is what they send / store into locations nobody else touches before the
  matching receive (checked by construction of the harnesses; stated in the evidence).
* unbuffered channel: a list of pending sends (guard, value, taken).  A plain receive `<-c` takes ANY
  pending send (which one is a fresh symbolic choice); receiving with nothing pending is an obligation
  failure ("would block forever").
* `select { case m := <-c: ...; case <-ctx.Done(): ... }`: each evaluation draws a symbolic event: either the
  context has fired (monotone flag per context) and the done case is taken, or some pending send is
  received.  When both are possible either may be chosen (Go picks at random).  A select at which nothing
  is ready blocks until something is: not an event, hence not modelled (the context never firing while a
  sender never becomes ready is outside the claim).
* context.Background / WithTimeout / WithCancel: abstract contexts with a monotone symbolic 'fired' flag.
"""
import z3
from .vals import *

DOC = __doc__


class Chan:
    def __init__(self, name):
        self.name = name
        self.sends = []      # dicts: g (guard), v (value), taken (z3 bool)
        self.is_done = None  # context id if this is a ctx.Done() channel


def install(E):
    I = E.intercepts
    chans = E.ghost.setdefault("chans", {})
    ctxs = E.ghost.setdefault("ctxs", {})

    def chan_of(p):
        t = p.single()
        if t is None:
            raise Exception("channel value is not a single concrete object")
        c = chans.get(t.obj)
        if c is None:
            c = chans[t.obj] = Chan("chan%d" % t.obj)
        return c

    def go_stmt(E, frame, ins, kind, target, args):
        # run the goroutine body now
        g0 = E.guard
        E.stats["goroutines"] = E.stats.get("goroutines", 0) + 1
        try:
            E.do_call(frame, ins, kind, target, args)
        finally:
            # a goroutine that panics takes the process down: obligations were recorded inside;
            # the spawner continues regardless
            E.guard = g0
        return None
    I["$go"] = go_stmt

    def send(E, frame, ins, ch, val):
        c = chan_of(ch)
        c.sends.append({"g": E.guard, "v": val, "taken": FALSE})
        return None
    I["$send"] = send

    def pending(c):
        return [s for s in c.sends]

    def take_any(E, c, what, pos, cond=TRUE):
        """receive from any pending send under extra condition cond; returns (value, possible)"""
        cands = []
        for k, s in enumerate(c.sends):
            avail = And(s["g"], Not(s["taken"]))
            if is_false(avail):
                continue
            cands.append((k, s, avail))
        if not cands:
            return None, FALSE
        possible = Or(*[a for _, _, a in cands])
        pick = E.new_input("sched.pick", "int", z3.BitVecSort(8))
        val = None
        chosen = []
        for k, s, avail in cands:
            sel = And(avail, pick == k)
            chosen.append(sel)
            val = s["v"] if val is None else ite(sel, s["v"], val)
        # the choice is one of the available sends
        E.assume(z3.Implies(And(cond, possible), Or(*chosen)), "scheduler: a receive takes one of the pending sends")
        g = And(E.guard, cond)
        for (k, s, avail), sel in zip(cands, chosen):
            s["taken"] = Or(s["taken"], And(g, sel))
        return val, possible

    def recv(E, frame, ins, ch):
        c = chan_of(ch)
        pos = ins.get("pos", "")
        val, possible = take_any(E, c, "recv", pos)
        E.oblige("deadlock", possible, oid="recv-would-block-forever@%s" % pos, pos=pos)
        if val is None:
            from .engine import DeadPath
            raise DeadPath("receive with nothing pending")
        if ins.get("commaok"):
            return (val, TRUE)
        return val
    I["$recv"] = recv

    def select(E, frame, ins, states):
        pos = ins.get("pos", "")
        if not ins.get("blocking", True):
            raise Exception("non-blocking select not modelled")
        # states: (dir, chan, sendval); dir 2 = recv (types.RecvOnly), 1 = send
        ready = []
        vals = []
        for i, (d, ch, sv) in enumerate(states):
            c = chan_of(ch)
            if c.is_done is not None:
                cx = ctxs[c.is_done]
                # the context may fire now (monotone)
                fire = E.new_input("sched.fire", "bool", z3.BoolSort())
                cx["fired"] = Or(cx["fired"], And(E.guard, fire))
                ready.append(cx["fired"])
                vals.append(None)
            else:
                avail = Or(*[And(s["g"], Not(s["taken"])) for s in c.sends]) if c.sends else FALSE
                ready.append(avail)
                vals.append(c)
        choice = E.new_input("sched.case", "int", z3.BitVecSort(8))
        anyready = Or(*ready)
        # something is ready (a select with nothing ready waits; not an event)
        E.assume(anyready, "scheduler: select evaluated when at least one case is ready")
        E.assume(Or(*[And(choice == i, r) for i, r in enumerate(ready)]), "scheduler: select takes a ready case")
        tt = E.prog.type(ins["type"]).d["elems"]
        out = [z3.ZeroExt(56, choice), TRUE]
        k = 2
        for i, (d, ch, sv) in enumerate(states):
            if d == 1:
                raise Exception("send case in select not modelled")
            c = vals[i]
            if c is None:
                out.append(E.zero(E.prog.type(tt[k])))
            else:
                v, possible = take_any(E, c, "select", pos, cond=(choice == i))
                out.append(v if v is not None else E.zero(E.prog.type(tt[k])))
            k += 1
        return tuple(out)
    I["$select"] = select

    # ---------------------------------------------------------------- contexts
    def new_ctx(parent=None):
        cid = len(ctxs)
        ctxs[cid] = {"fired": FALSE if parent is None else ctxs[parent]["fired"], "parent": parent, "chan": None}
        return cid

    def ctx_val(cid):
        return Iface(((TRUE, "$ctx", bv(cid)),))

    def background(E, name, args, ins):
        return ctx_val(new_ctx())
    I["context.Background"] = background
    I["context.TODO"] = background

    def cid_of(x):
        (c, t, p), = [a for a in x.alts if a[1] is not None]
        if t != "$ctx":
            raise Exception("context of type %s" % t)
        return p.as_long()

    def with_timeout(E, name, args, ins):
        cid = new_ctx(cid_of(args[0]))
        E.intercepts["$cancel%d" % cid] = lambda E, name, a, i: None
        return (ctx_val(cid), Clo.of("$cancel%d" % cid))
    I["context.WithTimeout"] = with_timeout
    I["context.WithCancel"] = with_timeout
    I["context.WithDeadline"] = with_timeout

    def ctx_invoke(E, payload, method, args, ins):
        cid = payload.as_long()
        cx = ctxs[cid]
        if method == "Done":
            if cx["chan"] is None:
                oid = E.alloc(None, ChanV(()), name="ctx.Done")
                cx["chan"] = oid
                ch = chans[oid] = Chan("done%d" % cid)
                ch.is_done = cid
            return Ptr.to(cx["chan"])
        if method == "Err":
            return ite(cx["fired"], E.err_token(), Iface.nil())
        if method == "Deadline":
            ok = E.fresh_bool("ctx_has_deadline")
            return (E.mk_time_ns(E.fresh_bv("ctx_deadline", 64)), ok)
        if method == "Value":
            return Iface.nil()
        raise Exception("context method %s" % method)
    I["$invoke:$ctx.*"] = ctx_invoke

    # harness access to the ghost state
    ZV = "example.com/scion-time/zzverif."

    def blocked_senders(E, name, args, ins):
        n = bv(0)
        for c in chans.values():
            for s in c.sends:
                n = n + zif(And(s["g"], Not(s["taken"])), bv(1), bv(0))
        return z3.simplify(n)
    I[ZV + "BlockedSenders"] = blocked_senders

    def ctx_fired(E, name, args, ins):
        return ctxs[cid_of(args[0])]["fired"]
    I[ZV + "CtxFired"] = ctx_fired

    from . import stubs
    stubs.doc("go / channels / select / context (scheduler model)", DOC)
