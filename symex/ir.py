"""IR loader: reads the JSON produced by ssaexport, resolves types, computes
reverse post-order, dominators and natural loops for every function body."""
import json


class Type:
    __slots__ = ("id", "kind", "d", "prog", "_u")

    def __init__(self, prog, tid, d):
        self.prog = prog
        self.id = tid
        self.d = d
        self.kind = d["kind"]
        self._u = None

    def under(self):
        """underlying (non-named) type"""
        if self._u is None:
            t = self
            while t.kind == "named":
                t = self.prog.type(t.d["underlying"])
            self._u = t
        return self._u

    @property
    def name(self):
        return self.d.get("name", self.id)

    def elem(self):
        return self.prog.type(self.under().d["elem"])

    def fields(self):
        return self.under().d["fields"]

    def __repr__(self):
        return "T<%s>" % self.id


class Function:
    def __init__(self, prog, d):
        self.prog = prog
        self.d = d
        self.name = d["name"]
        self.has_body = d.get("hasBody", False)
        self.params = d.get("params") or []
        self.freevars = d.get("freevars") or []
        self.results = d.get("results") or []
        self.blocks = d.get("blocks") or []
        self.hash = d.get("hash", "")
        self.ninstr = d.get("ninstr", 0)
        self.pos = d.get("pos", "")
        if self.has_body:
            self._analyse()

    def _analyse(self):
        n = len(self.blocks)
        succs = [b.get("succs") or [] for b in self.blocks]
        preds = [b.get("preds") or [] for b in self.blocks]
        self.succs, self.preds = succs, preds
        # reverse post order from block 0 (and recover block is ignored)
        seen = [False] * n
        post = []
        stack = [(0, 0)]
        seen[0] = True
        while stack:
            b, i = stack.pop()
            if i < len(succs[b]):
                stack.append((b, i + 1))
                s = succs[b][i]
                if not seen[s]:
                    seen[s] = True
                    stack.append((s, 0))
            else:
                post.append(b)
        rpo = post[::-1]
        self.rpo = rpo
        rponum = {b: i for i, b in enumerate(rpo)}
        self.reachable = set(rpo)
        # dominators (Cooper-Harvey-Kennedy)
        idom = {0: 0}
        changed = True
        while changed:
            changed = False
            for b in rpo[1:]:
                ps = [p for p in preds[b] if p in idom and p in rponum]
                if not ps:
                    continue
                new = ps[0]
                for p in ps[1:]:
                    a, c = p, new
                    while a != c:
                        while rponum[a] > rponum[c]:
                            a = idom[a]
                        while rponum[c] > rponum[a]:
                            c = idom[c]
                    new = a
                if idom.get(b) != new:
                    idom[b] = new
                    changed = True
        self.idom = idom

        def dominates(a, b):
            while True:
                if a == b:
                    return True
                if b == 0 or b not in idom:
                    return False
                b = idom[b]
        self.dominates = dominates
        # post-dominators on the reversed CFG with a virtual exit (-1)
        exits = [b for b in rpo if not succs[b]]
        rsucc = {b: [p for p in preds[b] if p in rponum] for b in rpo}
        rsucc[-1] = exits
        rpred = {b: list(succs[b]) if succs[b] else [-1] for b in rpo}
        seen2 = {-1}
        post2 = []
        st = [(-1, 0)]
        while st:
            x, i = st.pop()
            if i < len(rsucc[x]):
                st.append((x, i + 1))
                y = rsucc[x][i]
                if y not in seen2:
                    seen2.add(y)
                    st.append((y, 0))
            else:
                post2.append(x)
        rrpo = post2[::-1]
        rnum = {b: i for i, b in enumerate(rrpo)}
        ipdom = {-1: -1}
        ch = True
        while ch:
            ch = False
            for x in rrpo[1:]:
                ps = [p for p in rpred[x] if p in ipdom and p in rnum]
                if not ps:
                    continue
                new = ps[0]
                for p in ps[1:]:
                    a, c = p, new
                    while a != c:
                        while rnum[a] > rnum[c]:
                            a = ipdom[a]
                        while rnum[c] > rnum[a]:
                            c = ipdom[c]
                    new = a
                if ipdom.get(x) != new:
                    ipdom[x] = new
                    ch = True
        self.ipdom = ipdom

        def postdominates(a, b):
            # a postdominates b
            while True:
                if a == b:
                    return True
                if b == -1 or b not in ipdom:
                    return False
                b = ipdom[b]
        self.postdominates = postdominates
        # natural loops: back edge t->h where h dominates t
        loops = {}
        for t in rpo:
            for h in succs[t]:
                if h in rponum and dominates(h, t):
                    body = loops.setdefault(h, set([h]))
                    work = [t]
                    while work:
                        x = work.pop()
                        if x not in body:
                            body.add(x)
                            work.extend(p for p in preds[x] if p in rponum)
        self.loops = loops  # header -> set(blocks)
        # irreducibility check: any retreating edge that is not a back edge
        for t in rpo:
            for s in succs[t]:
                if s in rponum and rponum[s] <= rponum[t] and not dominates(s, t):
                    raise RuntimeError("irreducible CFG in %s" % self.name)
        # registers defined in each block
        self.defs_in_block = {}
        for b in self.blocks:
            self.defs_in_block[b["index"]] = [i["name"] for i in b["instrs"] if "name" in i]
        # loop nesting: parent loop header of each loop
        self.loop_parent = {}
        for h, body in loops.items():
            best = None
            for h2, body2 in loops.items():
                if h2 != h and h in body2:
                    if best is None or len(body2) < len(loops[best]):
                        best = h2
            self.loop_parent[h] = best
        # innermost loop of each block
        self.block_loop = {}
        for b in rpo:
            best = None
            for h, body in loops.items():
                if b in body and (best is None or len(body) < len(loops[best])):
                    best = h
            self.block_loop[b] = best
        # live-out registers per loop (defined inside, used outside)
        def_block = {}
        for b in self.blocks:
            for i in b["instrs"]:
                if "name" in i:
                    def_block[i["name"]] = b["index"]
        self.def_block = def_block
        self.liveout = {h: set() for h in loops}
        for b in self.blocks:
            bi = b["index"]
            for ins in b["instrs"]:
                for r in _uses(ins):
                    db = def_block.get(r)
                    if db is None:
                        continue
                    for h, body in loops.items():
                        if db in body and bi not in body:
                            self.liveout[h].add(r)
                        elif db in body and bi in body and ins.get("op") == "Phi" and bi == h:
                            pass


def _uses(ins):
    out = []

    def visit(v):
        if isinstance(v, dict):
            if v.get("k") == "reg":
                out.append(v["n"])
            else:
                for x in v.values():
                    visit(x)
        elif isinstance(v, list):
            for x in v:
                visit(x)
    for k, v in ins.items():
        if k in ("name", "type", "pos", "op"):
            continue
        visit(v)
    return out


class Program:
    def __init__(self, path):
        with open(path) as f:
            d = json.load(f)
        self.raw = d
        self._types = {}
        self.typed = d["types"]
        self.globals = d["globals"]
        self.methodsets = d["methodsets"]
        self.functions = {}
        for name, fd in d["functions"].items():
            self.functions[name] = Function(self, fd)

    def type(self, tid):
        t = self._types.get(tid)
        if t is None:
            t = Type(self, tid, self.typed[tid])
            self._types[tid] = t
        return t

    def func(self, name):
        return self.functions.get(name)
