"""Driver: check.py <property id> [--tier quick|thorough] [--replay path] [--only harness]"""
import argparse
import hashlib
import importlib.util
import json
import os
import re
import subprocess
import sys
import tempfile
import time
import shutil
import traceback

ROOT = os.path.dirname(os.path.dirname(os.path.abspath(__file__)))
sys.path.insert(0, ROOT)
from symex import ir, engine, solve, stubs  # noqa: E402
from symex.vals import *  # noqa: E402,F401
import z3  # noqa: E402

REPO = os.environ.get("VERIF_REPO", "/repo")
MODULE = "example.com/scion-time"


def log(msg):
    print(msg, flush=True)


def go_env():
    env = dict(os.environ)
    env["GOFLAGS"] = "-mod=mod"
    env["GOPROXY"] = "off"
    env.pop("GOSUMDB", None)
    env["GOTOOLCHAIN"] = "auto"
    return env


def ensure_exporter():
    exe = os.path.join(ROOT, "bin", "ssaexport")
    src = os.path.join(ROOT, "ssaexport", "main.go")
    if os.path.exists(exe) and os.path.getmtime(exe) >= os.path.getmtime(src):
        return exe
    env = dict(os.environ)
    env.update({"GOFLAGS": "-mod=mod", "GOPROXY": "off", "GOTOOLCHAIN": "local"})
    os.makedirs(os.path.join(ROOT, "bin"), exist_ok=True)
    r = subprocess.run(["go1.26.8", "build", "-o", exe, "."], cwd=os.path.join(ROOT, "ssaexport"), env=env, capture_output=True, text=True)
    if r.returncode != 0:
        raise RuntimeError("building ssaexport failed:\n" + r.stdout + r.stderr)
    return exe


def harness_overlay(prop):
    """virtual path in /repo -> real path under /verif/harness"""
    ov = {}
    hroot = os.path.join(ROOT, "harness")
    ov[os.path.join(REPO, "zzverif", "rt.go")] = os.path.join(hroot, "zzverif", "rt.go")
    for rel in prop.HARNESS_FILES:
        ov[os.path.join(REPO, rel)] = os.path.join(hroot, rel)
    return ov


DEFAULT_EXEC_PFX = [MODULE]
DEFAULT_EXEC_PKGS = ["encoding/binary", "container/heap", "math/bits", "cmp", "math", "errors", "golang.org/x/sys/unix", "slices", "sort", "bytes"]


def export_ir(prop, workdir):
    exe = ensure_exporter()
    entries = [h["fn"] for h in prop.HARNESSES]
    cfg = {
        "dir": REPO,
        "patterns": prop.PATTERNS,
        "overlay": harness_overlay(prop),
        "entries": sorted(set(entries + getattr(prop, "EXTRA_ENTRIES", []))),
        "exec_pkgs": DEFAULT_EXEC_PKGS + getattr(prop, "EXEC_PKGS", []),
        "exec_prefixes": DEFAULT_EXEC_PFX,
        "no_body": getattr(prop, "NO_BODY", []),
        "tags": "verif",
        "methods_of": getattr(prop, "METHODS_OF", []),
    }
    cpath = os.path.join(workdir, "export.json")
    opath = os.path.join(workdir, "ir.json")
    with open(cpath, "w") as f:
        json.dump(cfg, f)
    t0 = time.time()
    r = subprocess.run([exe, "-config", cpath, "-o", opath], env=go_env(), capture_output=True, text=True, cwd=REPO)
    if r.returncode != 0:
        raise RuntimeError("ssaexport failed:\n" + r.stdout + r.stderr)
    return opath, time.time() - t0


def load_prop(pid):
    path = os.path.join(ROOT, "props", pid.lower() + ".py")
    spec = importlib.util.spec_from_file_location("prop_" + pid, path)
    m = importlib.util.module_from_spec(spec)
    spec.loader.exec_module(m)
    return m


def load_known(pid):
    known, fixed = [], []
    p = os.path.join(ROOT, "known_findings.txt")
    if not os.path.exists(p):
        return known, fixed
    for line in open(p):
        line = line.strip()
        if not line or line.startswith("#"):
            continue
        if line.startswith("fixed:"):
            fixed.append(line)
            continue
        m = re.match(r"known:\s+property=(\S+)\s+key=(\S+)\s+(.*)$", line)
        if m and m.group(1) == pid:
            known.append((m.group(2), m.group(3)))
    return known, fixed


def finding_key(hname, ob):
    """stable identification of a violated obligation: harness, kind, function (no line numbers)"""
    if ob.kind == "assert":
        return "%s:assert:%s" % (hname, ob.id.split("#")[0])
    fn = ob.fn or "?"
    # attribute to the innermost function of the repository (not a harness, not a library)
    for f in reversed(getattr(ob, "stack", ()) or ()):
        if MODULE in f and ".Verif" not in f and "zzverif" not in f and not re.search(r"\.c\d\d[A-Za-z]", f):
            fn = f
            break
    fn = fn.rsplit("/", 1)[-1]
    return "%s:%s:%s" % (hname, ob.kind, fn)


# ------------------------------------------------------------------ replay
def replay_native(prop, h, ob, model, outdir, timeout=120):
    """run the harness natively on the counterexample; returns (reproduced?, detail, cexpath)"""
    os.makedirs(outdir, exist_ok=True)
    safe = re.sub(r"[^A-Za-z0-9_.-]", "_", "%s__%s" % (h["name"], ob.id))[:150]
    cex = os.path.join(outdir, safe + ".json")
    with open(cex, "w") as f:
        json.dump({"property": prop.ID, "harness": h["name"], "entry": h["fn"], "obligation": ob.id, "kind": ob.kind,
                   "pos": ob.pos, "fn": ob.fn, "inputs": model or {}}, f, indent=1, default=str)
    if model is None:
        return None, "no model values available", cex
    return run_native(prop, h, cex, ob, timeout)


def run_native(prop, h, cex, ob_or_none, timeout=120):
    pkgpath, fname = h["fn"].rsplit(".", 1)
    rel = pkgpath[len(MODULE):].lstrip("/")
    pkgdir = os.path.join(REPO, rel)
    pkgname = h.get("pkgname") or (rel.rsplit("/", 1)[-1] if rel else "main")
    work = tempfile.mkdtemp(prefix="verifreplay-")
    try:
        testfile = os.path.join(work, "zz_verif_replay_test.go")
        race = ob_or_none is not None and getattr(ob_or_none, "kind", "") == "lockset" and h.get("race_driver")
        if race:
            fname = h["race_driver"]
        with open(testfile, "w") as f:
            if h.get("synctest"):
                f.write("//go:build verif\n\npackage %s\n\nimport (\n\t\"testing\"\n\t\"testing/synctest\"\n)\n\nfunc TestVerifReplay(t *testing.T) {\n\tsynctest.Run(func() { %s() })\n}\n" % (pkgname, fname))
            else:
                f.write("//go:build verif\n\npackage %s\n\nimport \"testing\"\n\nfunc TestVerifReplay(t *testing.T) {\n\t%s()\n}\n" % (pkgname, fname))
        ov = {"Replace": dict(harness_overlay(prop))}
        ov["Replace"][os.path.join(pkgdir, "zz_verif_replay_test.go")] = testfile
        for virt, real in (h.get("replay_overlay") or {}).items():
            ov["Replace"][os.path.join(REPO, virt)] = os.path.join(ROOT, "harness", real)
        ovpath = os.path.join(work, "overlay.json")
        with open(ovpath, "w") as f:
            json.dump(ov, f)
        env = go_env()
        env["VERIF_CEX"] = cex
        if h.get("synctest"):
            env["GOEXPERIMENT"] = "synctest"
        timeout = h.get("replay_timeout", timeout)
        binp = os.path.join(work, "replay.test")
        cmd = ["go", "test", "-tags", "verif", "-vet=off", "-c", "-o", binp, "-overlay", ovpath] + (["-race"] if race else []) + ["./" + rel if rel else "."]
        r = subprocess.run(cmd, cwd=REPO, env=env, capture_output=True, text=True, timeout=900)
        if r.returncode != 0 or not os.path.exists(binp):
            out = "[build failed]\n" + r.stdout + r.stderr
            rc = 1
        else:
            import resource

            def limits():
                if race:
                    return   # the race detector reserves a large address range
                lim = int(h.get("replay_mem_gb", 6)) << 30
                resource.setrlimit(resource.RLIMIT_AS, (lim, lim))
            try:
                r = subprocess.run([binp, "-test.run", "^TestVerifReplay$", "-test.v", "-test.timeout", "%ds" % timeout], cwd=pkgdir if os.path.isdir(pkgdir) else REPO,
                                   env=env, capture_output=True, text=True, timeout=timeout + 60, preexec_fn=limits)
                out = r.stdout + r.stderr
                rc = r.returncode
            except subprocess.TimeoutExpired as e:
                out = ((e.stdout or b"").decode("utf8", "replace") if isinstance(e.stdout, bytes) else (e.stdout or "")) + "\nTIMEOUT"
                rc = -9
    finally:
        shutil.rmtree(work, ignore_errors=True)
    detail = out[-3000:]
    if ob_or_none is not None and getattr(ob_or_none, "kind", "") == "assert":
        base0 = ob_or_none.id.split("#")[0]
        mm = re.search(r"ASSERT-FAILED %s\b" % re.escape(base0), out)
        if mm and ("AssumeViolated" not in out or mm.start() < out.index("AssumeViolated")):
            # the assertion failed before any later assumption of the harness was reached
            return True, detail, cex
    if "AssumeViolated" in out:
        return False, "assumption violated natively\n" + detail, cex
    if "[build failed]" in out or "cannot find package" in out or "build constraints exclude" in out:
        return None, "native build failed\n" + detail, cex
    if ob_or_none is None:
        return None, detail, cex
    ob = ob_or_none
    kind = ob.kind
    if kind == "lockset":
        if not h.get("race_driver"):
            return None, "no race driver for this harness", cex
        return ("DATA RACE" in out), detail, cex
    if kind == "assert":
        base = ob.id.split("#")[0]
        if re.search(r"ASSERT-FAILED %s\b" % re.escape(base), out):
            return True, detail, cex
        return False, detail, cex
    if kind == "unwind":
        if "TIMEOUT" in out or "panic: test timed out" in out:
            return True, detail, cex
        return False, detail, cex
    if kind == "conv":
        return None, "float->int range violation cannot be confirmed natively\n" + detail, cex
    # panic-class obligations
    if "panic:" in out and "test timed out" not in out:
        return True, detail, cex
    if "fatal error:" in out or "cannot allocate memory" in out:
        return True, detail, cex
    if kind == "panic" and ("TIMEOUT" in out or "test timed out" in out):
        return None, "timed out instead of panicking\n" + detail, cex
    return False, detail, cex


# ------------------------------------------------------------------ main check
def run_harness(prog, prop, h, tier, workdir):
    cfg = dict(getattr(prop, "ENGINE_CFG", {}))
    cfg.update(h.get("cfg", {}))
    cfg.update(h.get("cfg_" + tier, {}))
    E = engine.Engine(prog, cfg)
    for fn in getattr(prop, "INSTALL", []):
        fn(E)
    for fn in h.get("install", []):
        fn(E)
    t0 = time.time()
    E.run_entry(h["fn"])
    t_exec = time.time() - t0
    return E, t_exec


def main():
    ap = argparse.ArgumentParser()
    ap.add_argument("prop")
    ap.add_argument("--tier", default=os.environ.get("VERIF_TIER", "quick"))
    ap.add_argument("--replay", default=None)
    ap.add_argument("--only", default=None)
    ap.add_argument("--jobs", type=int, default=8)
    ap.add_argument("--keep", action="store_true")
    ap.add_argument("--no-evidence", action="store_true")
    args = ap.parse_args()
    pid = args.prop.upper()
    tier = args.tier if args.tier in ("quick", "thorough") else "quick"
    seed = int(os.environ.get("VERIF_SEED", "0") or 0)
    prop = load_prop(pid)
    t_start = time.time()
    if args.replay:
        d = json.load(open(args.replay))
        h = [x for x in prop.HARNESSES if x["name"] == d["harness"]][0]

        class OB:
            pass
        ob = OB()
        ob.id, ob.kind, ob.pos, ob.fn = d["obligation"], d["kind"], d.get("pos", ""), d.get("fn", "")
        ok, detail, _ = run_native(prop, h, args.replay, ob)
        print(detail)
        print("REPRODUCED" if ok else "NOT-REPRODUCED")
        if ok:
            print("VIOLATION property=%s replay=%s" % (pid, args.replay))
        sys.exit(1 if ok else 0)

    workdir = tempfile.mkdtemp(prefix="verif-%s-" % pid)
    exit_code = 0
    ev = {"property_id": pid, "tier": tier, "seed": seed, "level": "model_checking", "coverage": {}, "assumptions": [], "wall_s": 0.0, "violations": 0}
    violations = []
    inconclusive = []
    known_hit = []
    try:
        irpath, t_export = export_ir(prop, workdir)
        prog = ir.Program(irpath)
        log("[%s] exported %d functions (%d with bodies) in %.1fs" % (pid, len(prog.functions), sum(1 for f in prog.functions.values() if f.has_body), t_export))
        known, fixed = load_known(pid)
        tot = {"obligations": 0, "discharged": 0, "trivial": 0, "sat": 0, "unknown": 0, "blocks": 0, "edges": 0, "instrs": 0, "solver_s": 0.0, "queries": 0}
        funcs_enc = {}
        stubs_used = set()
        samples = []
        per_h = []
        assumptions_txt = set()
        vacuity = {}
        replayed = 0
        selftest = None
        if hasattr(prop, "selftest"):
            selftest = prop.selftest(prog, tier, seed, log)
            if not selftest.get("ok", False):
                inconclusive.append("encoder self-test failed: %s" % selftest.get("detail"))
        for h in prop.HARNESSES:
            if args.only and h["name"] not in args.only.split(","):
                continue
            if tier == "quick" and h.get("thorough_only"):
                continue
            if tier == "thorough" and h.get("quick_only"):
                continue
            log("[%s] harness %s" % (pid, h["name"]))
            try:
                E, t_exec = run_harness(prog, prop, h, tier, workdir)
            except engine.Inconclusive as e:
                inconclusive.append("%s: %s" % (h["name"], e))
                log("  INCONCLUSIVE %s" % e)
                continue
            except Exception as e:
                inconclusive.append("%s: engine error %s" % (h["name"], e))
                traceback.print_exc()
                continue
            obs = E.obligations
            skip = tuple(getattr(prop, "SKIP_ASSERT_PREFIXES", ()))
            if skip:
                # assertions that belong to another property's check (shared harness): decided there
                obs = [o for o in obs if not (o.kind == "assert" and o.id.startswith(skip))]
            st = solve.discharge(E, obs, tier=tier, jobs=args.jobs, log=log, timeout=h.get("timeout_" + tier), inproc_ms=h.get("inproc_ms"),
                                 prefs=h["native_feasible"](E) if h.get("native_feasible") else None)
            if not any(o.kind == "reach" for o in obs):
                inconclusive.append("%s: vacuous - the harness never reached its Reach witness" % h["name"])
            n_triv = sum(1 for o in obs if o.status == "trivial")
            n_unsat = sum(1 for o in obs if o.status == "unsat" and o.expect == "unsat")
            n_reach_ok = 0
            hres = {"harness": h["name"], "entry": h["fn"], "obligations": len(obs), "exec_s": round(t_exec, 2), "solver_s": round(st["solver_s"], 2), "by_solver": st["by_solver"], "blocks": E.stats["blocks"], "instrs": E.stats["instrs"], "max_loop_iters": E.stats.get("max_iters", 0), "bounds": h.get("bounds_" + tier, h.get("bounds", ""))}
            seen_keys = {}
            for o in obs:
                if o.kind == "reach":
                    vacuity[h["name"] + ":" + o.id] = o.status
                    if o.status == "sat":
                        n_reach_ok += 1
                    elif o.status == "unsat" or o.status == "trivial":
                        inconclusive.append("%s: vacuous - %s unreachable" % (h["name"], o.id))
                    else:
                        inconclusive.append("%s: reachability witness %s undecided (%s)" % (h["name"], o.id, o.status))
                    continue
                if o.status in ("unsat", "trivial"):
                    continue
                if o.status == "sat":
                    key = finding_key(h["name"], o)
                    if o.kind == "bound":
                        inconclusive.append("%s: modelling bound too small: %s" % (h["name"], o.id))
                        continue
                    if o.kind == "unwind" and not h.get("unwind_is_violation"):
                        inconclusive.append("%s: unwinding bound too small at %s" % (h["name"], o.id))
                        continue
                    if key in seen_keys:
                        seen_keys[key] += 1
                        continue
                    seen_keys[key] = 1
                    model0 = o.model
                    # (replayability side conditions were already applied when the counterexample was re-solved)
                    ok, detail, cexp = replay_native(prop, h, o, model0, os.path.join(ROOT, "replay", pid))
                    replayed += 1
                    if ok is False and E.ghost.get("tiebreak"):
                        # the contract stubs leave the order of ties open: look for a tie-free counterexample
                        m2 = solve.resolve_with(E, o, E.ghost["tiebreak"], timeout_ms=60000)
                        if m2 is not None:
                            ok, detail, cexp = replay_native(prop, h, o, m2, os.path.join(ROOT, "replay", pid))
                            replayed += 1
                    if ok:
                        kn = [k for k in known if k[0] == key]
                        if kn:
                            known_hit.append((key, kn[0][1]))
                            log("KNOWN-FINDING: property=%s %s (%s)" % (pid, kn[0][1], key))
                        else:
                            violations.append((key, o, cexp))
                            log("  violated: %s [%s] at %s in %s; key=%s" % (o.id, o.kind, o.pos, o.fn, key))
                            log("VIOLATION property=%s replay=%s" % (pid, cexp))
                    elif ok is None:
                        inconclusive.append("%s: counterexample for %s could not be replayed (%s)" % (h["name"], o.id, detail[:300]))
                        log("  UNCONFIRMED-CEX %s: %s" % (o.id, detail[-1500:]))
                    else:
                        inconclusive.append("%s: counterexample for %s did not reproduce natively" % (h["name"], o.id))
                        log("  UNCONFIRMED-CEX %s did not reproduce:\n%s" % (o.id, detail[-1500:]))
                else:
                    inconclusive.append("%s: %s undecided (%s) %s" % (h["name"], o.id, o.status, o.note))
            for k, c in seen_keys.items():
                if c > 1:
                    log("  (%d further violated obligations with key %s not replayed separately)" % (c - 1, k))
            tot["obligations"] += len([o for o in obs if o.kind != "reach"])
            tot["discharged"] += n_unsat + n_triv
            tot["trivial"] += n_triv
            tot["queries"] += len(obs) - n_triv
            tot["blocks"] += E.stats["blocks"]
            tot["edges"] += E.stats["edges"]
            tot["instrs"] += E.stats["instrs"]
            tot["solver_s"] += st["solver_s"]
            for f in E.stats["funcs"]:
                fo = prog.func(f)
                funcs_enc[f] = {"hash": fo.hash, "instrs": fo.ninstr}
            stubs_used |= E.stats["stubs"]
            for n in E.assumption_notes:
                if n:
                    assumptions_txt.add(n.split("@")[0] if n.startswith("Assume@") else n)
            hres["assumes"] = sum(1 for n in E.assumption_notes if n.startswith("Assume@"))
            per_h.append(hres)
            nontriv = [o for o in obs if o.status not in ("trivial",)]
            for o in nontriv[:3]:
                samples.append({"harness": h["name"], "obligation": o.id, "kind": o.kind, "pos": o.pos, "in": o.fn, "status": o.status, "solver": o.solver, "seconds": round(o.time, 3), "model": o.model if o.status == "sat" and o.kind != "reach" else None})
            log("  %d obligations: %d trivial, %d unsat, reach %d ok; exec %.1fs solve %.1fs %s" % (len(obs), n_triv, n_unsat, n_reach_ok, t_exec, st["solver_s"], st["by_solver"]))
        if violations:
            exit_code = 1
        elif inconclusive:
            exit_code = 2
        cov = {
            "states": max(1, tot["blocks"]),
            "transitions": max(1, tot["edges"]),
            "traces_validated_against_impl": replayed + (selftest or {}).get("cases", 0),
            "samples": samples[:12] or [{"note": "no non-trivial obligation"}],
            "obligations": tot["obligations"],
            "discharged": tot["discharged"],
            "trivial_obligations": tot["trivial"],
            "evaluations": tot["queries"],
            "distinct_nontrivial": len(set((s["harness"], s["obligation"]) for s in samples)) if False else tot["queries"],
            "rule": "one solver query per obligation (assert / implicit panic / unwinding / range) that does not fold to true syntactically; distinct = distinct (harness, obligation id)",
            "functions_encoded": funcs_enc,
            "stubs": sorted(stubs_used),
            "stub_contracts": {k: v for k, v in stubs.STUB_DOC.items()},
            "harnesses": per_h,
            "vacuity_witnesses": vacuity,
            "solver_seconds": round(tot["solver_s"], 2),
            "ssa_instructions_executed": tot["instrs"],
            "encoder_selftest": selftest,
            "known_findings_matched": [k for k, _ in known_hit],
            "inconclusive": inconclusive,
            "explanation": getattr(prop, "EXPLANATION", ""),
            "exhaustive": False,
        }
        ev["coverage"] = cov
        ev["assumptions"] = sorted(assumptions_txt) + list(getattr(prop, "ASSUMPTIONS", []))
        ev["violations"] = len(violations)
    except Exception as e:
        traceback.print_exc()
        inconclusive.append("driver error: %s" % e)
        exit_code = 2
        ev["coverage"] = {"states": 1, "transitions": 1, "traces_validated_against_impl": 0, "samples": [{"error": str(e)}], "inconclusive": inconclusive}
    finally:
        if not args.keep:
            shutil.rmtree(workdir, ignore_errors=True)
        solve.cleanup()
    ev["wall_s"] = round(time.time() - t_start, 2)
    if not args.no_evidence and not args.only:
        os.makedirs(os.path.join(ROOT, "evidence"), exist_ok=True)
        with open(os.path.join(ROOT, "evidence", pid + ".json"), "w") as f:
            json.dump(ev, f, indent=1, default=str)
    for m in inconclusive:
        log("INCONCLUSIVE: %s" % m)
    log("[%s] %s tier=%s wall=%.1fs exit=%d" % (pid, "HELD" if exit_code == 0 else ("VIOLATED" if exit_code == 1 else "INCONCLUSIVE"), tier, ev["wall_s"], exit_code))
    sys.exit(exit_code)


if __name__ == "__main__":
    main()
