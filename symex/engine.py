"""Bounded symbolic executor for Go SSA (guarded single-state execution with
loop unrolling), producing proof obligations as z3 terms."""
import sys
import time as _time
import z3
from .vals import *
from . import vals as V


class Inconclusive(Exception):
    pass


class Obligation:
    __slots__ = ("id", "kind", "guard", "claim", "pos", "fn", "assum_n", "status", "model", "solver", "time", "note", "expect", "stack")

    def __init__(self, oid, kind, guard, claim, pos, fn, assum_n):
        self.id = oid
        self.kind = kind          # assert | panic | nil | bounds | div0 | unwind | conv | typeassert | reach
        self.guard = guard
        self.claim = claim
        self.pos = pos
        self.fn = fn
        self.assum_n = assum_n    # number of assumptions in force (all are global; kept for reporting)
        self.status = None        # 'unsat' (holds) | 'sat' (violated) | 'unknown' | 'trivial'
        self.model = None
        self.solver = None
        self.time = 0.0
        self.note = ""
        self.expect = "unsat"     # reach obligations expect 'sat'
        self.stack = ()


class Frame:
    __slots__ = ("fn", "env", "defguard", "in_edges", "rets", "defers", "panics", "end_state")

    def __init__(self, fn):
        self.fn = fn
        self.env = {}
        self.defguard = {}
        self.in_edges = {}
        self.rets = []
        self.defers = []
        self.end_state = {}


class PanicScope:
    def __init__(self, depth=0):
        self.guards = []
        self.depth = depth    # number of frames on the stack when the scope was opened


class Engine:
    def __init__(self, prog, cfg=None):
        self.prog = prog
        self.cfg = cfg or {}
        self.mem = {}
        self.objtype = {}
        self.objname = {}
        self.nobj = 0
        self.assumptions = []
        self.assumption_notes = []
        self.obligations = []
        self.inputs = {}          # name -> dict(kind, term, n)
        self.input_counts = {}
        self.guard = TRUE
        self.globals = {}
        self.intercepts = {}
        self.intercept_prefixes = []
        self.panic_scopes = []
        self.depth = 0
        self.stats = {"blocks": 0, "edges": 0, "instrs": 0, "calls": 0, "funcs": set(), "stubs": set()}
        self.strs = {}
        self.strlen = z3.Function("strlen", StrSort, BV64)
        self.fresh_n = 0
        self.errtok_n = 0
        self.time_mode = self.cfg.get("time_mode", "ns64")
        self.default_unwind = self.cfg.get("default_unwind", 70)
        self.unwind = self.cfg.get("unwind", {})   # "fn#block" -> bound
        self.copy_bound = self.cfg.get("copy_bound", 64)
        self.ghost = {}           # free-form ghost state for stubs
        self.trace = self.cfg.get("trace", False)
        self.callstack = []
        self.ob_count = {}
        self.prune_solver = None
        self.prune = self.cfg.get("prune", True)
        self.mutexes = {}
        self.inits_done = set()
        self.narrows = 0
        self.kills = 0            # events that end a path other than by returning (panic, dead path, loop cut)
        self.frames = []
        self.refinements = []     # exact definitions of summarised functions (second-stage queries)
        from . import stubs
        stubs.install(self)

    # ------------------------------------------------------------ utilities
    def fresh(self, prefix, sort):
        self.fresh_n += 1
        return z3.Const("%s!%d" % (prefix, self.fresh_n), sort)

    def fresh_bv(self, prefix, bits):
        return self.fresh(prefix, z3.BitVecSort(bits))

    def fresh_bool(self, prefix):
        return self.fresh(prefix, z3.BoolSort())

    def input_name(self, name):
        k = self.input_counts.get(name, 0)
        self.input_counts[name] = k + 1
        return name if k == 0 else "%s@%d" % (name, k)

    def new_input(self, name, kind, sort, n=None):
        nm = self.input_name(name)
        t = z3.Const(nm, sort)
        self.inputs[nm] = {"kind": kind, "term": t, "n": n}
        return t

    def assume(self, c, note=""):
        c = Or(Not(self.guard), c) if not is_true(self.guard) else c
        if is_true(c):
            return
        self.assumptions.append(c)
        self.assumption_notes.append(note)

    def assume_global(self, c, note=""):
        if is_true(c):
            return
        self.assumptions.append(c)
        self.assumption_notes.append(note)

    def oblige(self, kind, claim, oid=None, pos="", narrow=True):
        """record obligation 'under the current guard, claim holds'"""
        if not is_true(claim) and not is_false(claim):
            claim = z3.simplify(claim)
        if is_true(claim):
            self.stats["folded"] = self.stats.get("folded", 0) + 1
            if kind == "assert":
                self.stats.setdefault("folded_asserts", []).append(oid)
            return
        g = self.guard
        if is_false(g) and kind != "reach":
            return
        if self.panic_scopes and kind not in ("assert", "reach", "conv", "bound", "timerange"):
            # inside a Panics(...) scope: implicit/explicit panics are captured, not obligations
            self.panic_scopes[-1].guards.append(And(g, Not(claim)))
            if narrow:
                self.guard = And(g, claim)
                self.narrows += 1
            return
        if oid is None:
            base = "%s@%s" % (kind, pos or "?")
        else:
            base = oid
        k = self.ob_count.get(base, 0)
        self.ob_count[base] = k + 1
        oid = base if k == 0 else "%s#%d" % (base, k)
        fn = self.callstack[-1] if self.callstack else ""
        ob = Obligation(oid, kind, g, claim, pos, fn, len(self.assumptions))
        ob.stack = tuple(self.callstack)
        self.obligations.append(ob)
        if narrow and kind != "assert":
            # assert-then-assume: the path continues only where the check passed. Recorded as an
            # assumption (not by narrowing the guard) so that later stores stay unconditional.
            self.assume(claim, "")

    def str_const(self, s):
        t = self.strs.get(s)
        if t is None:
            t = z3.Const("str!%d" % len(self.strs), StrSort)
            self.strs[s] = t
        return Str(s, t, bv(len(s.encode())))

    def str_axioms(self):
        ax = []
        ts = list(self.strs.values())
        if len(ts) >= 2:
            ax.append(z3.Distinct(*ts))
        for s, t in self.strs.items():
            ax.append(self.strlen(t) == bv(len(s.encode())))
        return ax

    def fresh_str(self, prefix):
        t = self.fresh(prefix, StrSort)
        return Str(None, t, self.strlen(t))

    def err_token(self, name=None):
        self.errtok_n += 1
        return Iface(((TRUE, "$err", bv(self.errtok_n)),))

    def sym_error(self, prefix="err"):
        c = self.fresh_bool(prefix + "_nil")
        tok = self.fresh_bv(prefix + "_tok", 64)
        # symbolic tokens live above 2^32 so that they never equal a named package error
        self.assume_global(z3.UGE(tok, bv(1 << 32)), "symbolic error token is not a package-level error")
        return Iface(((c, None, None), (Not(c), "$err", tok)))

    # ------------------------------------------------------------ contextual simplification
    def _flatten(self, c, out):
        if z3.is_and(c):
            for ch in c.children():
                self._flatten(ch, out)
        else:
            out.append(c)

    def factor_or(self, gs):
        """Or(gs) with the conjuncts common to all disjuncts factored out (keeps guards And-shaped)"""
        if len(gs) == 1:
            return gs[0]
        lists = []
        for g in gs:
            cs = []
            self._flatten(g, cs)
            lists.append(cs)
        common = set(x.get_id() for x in lists[0])
        for cs in lists[1:]:
            common &= set(x.get_id() for x in cs)
        if not common:
            return Or(*gs)
        keep = [x for x in lists[0] if x.get_id() in common]
        rests = []
        for cs in lists:
            rests.append(And(*[x for x in cs if x.get_id() not in common]))
        return And(*(keep + [Or(*rests)]))

    def guard_facts(self):
        g = self.guard
        k = g.get_id()
        cache = self.ghost.setdefault("_gfacts", {})
        r = cache.get(k)
        if r is None:
            cs = []
            self._flatten(g, cs)
            r = (g, set(x.get_id() for x in cs), cs)
            if len(cache) > 2000:
                cache.clear()
            cache[k] = r
        return r[1]

    def implied(self, c, facts):
        cs = []
        self._flatten(c, cs)
        return all(x.get_id() in facts for x in cs)

    def refuted(self, c, facts):
        cs = []
        self._flatten(c, cs)
        for x in cs:
            if z3.is_not(x):
                if x.arg(0).get_id() in facts:
                    return True
            else:
                # Not(x) among the facts
                pass
        return False

    def ctx_scalar(self, t, facts, negfacts):
        """resolve top-level if-then-else terms whose condition is decided by the current guard"""
        n = 0
        while z3.is_app_of(t, z3.Z3_OP_ITE) and n < 50:
            c = t.arg(0)
            if self.implied(c, facts):
                t = t.arg(1)
            elif c.get_id() in negfacts or self.refuted(c, facts):
                t = t.arg(2)
            else:
                break
            n += 1
        return t

    def ctx_value(self, v):
        """contextual simplification of a loaded value under the current guard"""
        g = self.guard
        if is_true(g):
            return v
        facts = self.guard_facts()
        key = ("_negfacts", g.get_id())
        negfacts = self.ghost.get(key)
        if negfacts is None:
            cs = []
            self._flatten(g, cs)
            negfacts = set(x.arg(0).get_id() for x in cs if z3.is_not(x))
            self.ghost[key] = negfacts
            self.ghost.setdefault("_negkeep", []).append(g)
        return self._ctx_value(v, facts, negfacts)

    def _ctx_value(self, v, facts, negfacts):
        if isinstance(v, z3.ExprRef):
            return self.ctx_scalar(v, facts, negfacts)
        tv = type(v)
        if tv is Str:
            n = 0
            while v.ite is not None and n < 50:
                c, a, b = v.ite
                if self.implied(c, facts):
                    v = a
                elif c.get_id() in negfacts or self.refuted(c, facts):
                    v = b
                else:
                    break
                n += 1
            return v
        if tv is Slice:
            return Slice(self._ctx_ptr(v.base, facts, negfacts), self.ctx_scalar(v.off, facts, negfacts), self.ctx_scalar(v.len, facts, negfacts), self.ctx_scalar(v.cap, facts, negfacts))
        if tv is Ptr:
            return self._ctx_ptr(v, facts, negfacts)
        if tv is Iface:
            alts = []
            for c, t, p in v.alts:
                if self.implied(c, facts):
                    return Iface(((TRUE, t, p),))
                if c.get_id() in negfacts or self.refuted(c, facts):
                    continue
                alts.append((c, t, p))
            return Iface(alts) if alts else v
        if tv is SV:
            return SV([self._ctx_value(x, facts, negfacts) for x in v.f])
        if tv is TV:
            if v.ns is not None:
                return TV(ns=self.ctx_scalar(v.ns, facts, negfacts))
            return TV(sec=self.ctx_scalar(v.sec, facts, negfacts), nsec=self.ctx_scalar(v.nsec, facts, negfacts))
        if tv is Clo:
            alts = []
            for c, f, bd in v.alts:
                if self.implied(c, facts):
                    return Clo(((TRUE, f, bd),))
                if c.get_id() in negfacts or self.refuted(c, facts):
                    continue
                alts.append((c, f, bd))
            return Clo(alts) if alts else v
        return v

    def _ctx_ptr(self, p, facts, negfacts):
        alts = []
        for c, t in p.alts:
            if is_true(c):
                return p
            if self.implied(c, facts):
                return Ptr(((TRUE, t),))
            if c.get_id() in negfacts or self.refuted(c, facts):
                continue
            alts.append((c, t))
        return Ptr(alts) if alts else p

    # ------------------------------------------------------------ memory
    def alloc(self, typ, val=None, name=""):
        self.nobj += 1
        oid = self.nobj
        self.objtype[oid] = typ
        self.objname[oid] = name
        self.mem[oid] = self.zero(typ) if val is None else val
        return oid

    def int_elem_bits(self, t):
        u = t.under()
        if u.kind == "int":
            return u.d["bits"]
        return None

    def zero(self, t):
        k = t.kind
        if k == "named":
            nm = t.name
            if nm == "time.Time":
                return self.time_zero()
            z = self.named_zero(t)
            if z is not None:
                return z
            return self.zero(self.prog.type(t.d["underlying"]))
        if k == "int":
            return bv(0, t.d["bits"])
        if k == "bool":
            return FALSE
        if k == "float":
            return z3.FPVal(0.0, F64 if t.d["bits"] == 64 else F32)
        if k == "string":
            return self.str_const("")
        if k == "struct":
            return SV([self.zero(self.prog.type(f["type"])) for f in t.d["fields"]])
        if k == "array":
            et = self.prog.type(t.d["elem"])
            n = t.d["len"]
            bits = self.int_elem_bits(et)
            if bits is not None:
                return ZA(z3.K(BV64, bv(0, bits)), n)
            z = self.zero(et)
            return AV([z] * n)
        if k == "ptr" or k == "map" or k == "chan" or k == "unsafeptr":
            return Ptr.nil()
        if k == "slice":
            return Slice.nil()
        if k == "iface":
            return Iface.nil()
        if k == "func":
            return Clo.nil()
        if k == "tuple":
            return tuple(self.zero(self.prog.type(e)) for e in t.d["elems"])
        if k == "nil":
            return None
        raise Inconclusive("zero value of %s" % t.id)

    def named_zero(self, t):
        return None

    def time_zero(self):
        if self.time_mode == "ns64":
            return TV(ns=bv(-(1 << 63)))
        return TV(sec=bv(-62135596800), nsec=bv(0))

    def get_path(self, v, path):
        for p in path:
            if type(v) is SV:
                v = v.f[p]
            elif type(v) is AV:
                v = v.e[p]
            else:
                raise Inconclusive("bad path %r into %r" % (path, v))
        return v

    def set_path(self, v, path, fn):
        if not path:
            return fn(v)
        p = path[0]
        if type(v) is SV:
            l = list(v.f)
            l[p] = self.set_path(l[p], path[1:], fn)
            return SV(l)
        if type(v) is AV:
            l = list(v.e)
            l[p] = self.set_path(l[p], path[1:], fn)
            return AV(l)
        raise Inconclusive("bad path %r into %r" % (path, v))

    def read_tgt(self, t):
        v = self.get_path(self.mem[t.obj], t.path)
        if t.idx is not None:
            if type(v) is ZA:
                return v.read(t.idx)
            raise Inconclusive("indexed read of non-ZA")
        return v

    def load(self, p, pos=""):
        if type(p) is not Ptr:
            raise Inconclusive("load through %r" % (p,))
        nilc = p.is_nil_cond()
        if not is_false(nilc):
            self.oblige("nil", Not(nilc), pos=pos)
        res = None
        for c, t in p.alts:
            if t is None:
                continue
            v = self.read_tgt(t)
            res = v if res is None else ite(c, v, res)
        if res is None:
            raise DeadPath()
        return self.ctx_value(res)

    def store(self, p, val, pos=""):
        if type(p) is not Ptr:
            raise Inconclusive("store through %r" % (p,))
        nilc = p.is_nil_cond()
        if not is_false(nilc):
            self.oblige("nil", Not(nilc), pos=pos)
        g = self.guard
        for c, t in p.alts:
            if t is None:
                continue
            cc = And(g, c)
            if is_false(cc):
                continue
            self.write_tgt(t, val, cc)

    def write_tgt(self, t, val, cc):
        if t.idx is not None:
            def upd(old):
                if type(old) is not ZA:
                    raise Inconclusive("indexed write of non-ZA")
                return old.write(t.idx, val, cc)
        else:
            def upd(old):
                return ite(cc, val, old)
        self.mem[t.obj] = self.set_path(self.mem[t.obj], t.path, upd)

    # ------------------------------------------------------------ globals
    def global_ptr(self, name, tid):
        gg = self.cfg.get("guarded_globals")
        if gg and name in gg and self.callstack:
            fn = self.callstack[-1]
            if not any(x in fn for x in self.cfg.get("guarded_exempt", (".Verif", ".c06", ".c07"))):
                moid = self.globals.get(gg[name])
                held = self.mutexes.get((moid, ()), FALSE) if moid is not None else FALSE
                self.oblige("lockset", held, oid="lockset:%s accessed without %s in %s" % (name.rsplit(".", 1)[-1], gg[name].rsplit(".", 1)[-1], fn.rsplit("/", 1)[-1]), narrow=False)
        oid = self.globals.get(name)
        if oid is None:
            pt = self.prog.type(tid)
            et = pt.elem()
            val = None
            if et.under().kind == "iface" and et.id == "error":
                val = self.err_token(name)
                # stable id per global name so that it is the same in every run
            oid = self.alloc(et, val, name=name)
            self.globals[name] = oid
            gi = self.cfg.get("global_init", {}).get(name)
            if gi is not None:
                self.mem[oid] = gi(self, et)
        return Ptr.to(oid)

    # ------------------------------------------------------------ operands
    def operand(self, frame, v):
        k = v["k"]
        if k == "reg":
            try:
                return frame.env[v["n"]]
            except KeyError:
                raise Inconclusive("undefined register %s in %s" % (v["n"], frame.fn.name))
        if k == "const":
            return self.const(v)
        if k == "global":
            return self.global_ptr(v["n"], v["t"])
        if k == "func":
            return Clo.of(v["n"])
        if k == "builtin":
            return ("builtin", v["n"])
        raise Inconclusive("operand kind %s" % k)

    def const(self, v):
        t = self.prog.type(v["t"])
        u = t.under()
        val = v["v"]
        if val is None:
            return self.zero(t)
        k = u.kind
        if k == "int":
            return bv(int(val), u.d["bits"])
        if k == "bool":
            return TRUE if val else FALSE
        if k == "float":
            if v.get("float"):
                f = float.fromhex(val)
            else:
                f = float(int(val)) if not isinstance(val, float) else val
            return z3.FPVal(f, F64 if u.d["bits"] == 64 else F32)
        if k == "string":
            return self.str_const(val)
        raise Inconclusive("const of type %s" % t.id)

    # ------------------------------------------------------------ execution
    def unwind_bound(self, fn, h):
        key = "%s#%d" % (fn.name, h)
        if key in self.unwind:
            return self.unwind[key]
        if fn.name in self.unwind:
            return self.unwind[fn.name]
        short = fn.name.rsplit("/", 1)[-1]
        if short in self.unwind:
            return self.unwind[short]
        return self.default_unwind

    def feasible(self, g):
        """quick feasibility check of a guard (used for pruning only; unknown = feasible)"""
        if is_false(g):
            return False
        if is_true(g) or not self.prune:
            return True
        from . import solve as _solve
        ps = z3.Solver()
        ps.set("timeout", self.cfg.get("prune_timeout_ms", 400))
        for a in _solve.relevant(self.assumptions, [g]):
            ps.add(a)
        ps.add(g)
        t0 = _time.time()
        r = ps.check()
        self.stats["prune_checks"] = self.stats.get("prune_checks", 0) + 1
        self.stats["prune_s"] = self.stats.get("prune_s", 0.0) + _time.time() - t0
        if r == z3.unknown:
            self.stats["prune_unknown"] = self.stats.get("prune_unknown", 0) + 1
        if self.trace:
            print("    prune %s -> %s %.2fs in %s" % (len(self.assumptions), r, _time.time() - t0, self.callstack[-1] if self.callstack else ""), flush=True)
        return r != z3.unsat

    def call_function(self, name, args, bindings=(), instr=None):
        """call by name: intercept, or inline the body. returns value (tuple for multi-results)"""
        ic = self.find_intercept(name)
        if ic is not None:
            self.stats["stubs"].add(name)
            return ic(self, name, args, instr)
        fn = self.prog.func(name)
        if fn is None or not fn.has_body:
            raise Inconclusive("unmodelled call %s (from %s)" % (name, self.callstack[-1] if self.callstack else "?"))
        return self.run_function(fn, args, bindings)

    def find_intercept(self, name):
        ic = self.intercepts.get(name)
        if ic is not None:
            return ic
        for pfx, f in self.intercept_prefixes:
            if name.startswith(pfx):
                return f
        return None

    def run_function(self, fn, args, bindings=()):
        if self.depth > self.cfg.get("max_depth", 40):
            raise Inconclusive("call depth exceeded at %s" % fn.name)
        if is_false(self.guard):
            return self.zero_results(fn)
        self.depth += 1
        self.callstack.append(fn.name)
        self.stats["calls"] += 1
        self.stats["funcs"].add(fn.name)
        frame = Frame(fn)
        if len(args) != len(fn.params):
            raise Inconclusive("arity mismatch calling %s: %d vs %d" % (fn.name, len(args), len(fn.params)))
        for p, a in zip(fn.params, args):
            frame.env[p["n"]] = a
        for fv, b in zip(fn.freevars, bindings):
            frame.env[fv["n"]] = b
        frame.in_edges[0] = [(self.guard, -1, [])]
        saved_guard = self.guard
        kills0 = self.kills
        self.frames.append(frame)
        try:
            self.exec_blocks(frame, fn.rpo, None)
        finally:
            self.depth -= 1
            self.callstack.pop()
            self.frames.pop()
        # merge returns
        if not frame.rets:
            self.guard = FALSE
            return self.zero_results(fn)
        if self.kills == kills0 and not self.panic_scopes:
            # every path through the callee returned: the guard after the call is the guard before it
            rg = saved_guard
        else:
            rg = self.factor_or([g for g, v in frame.rets if not is_false(g)]) if any(not is_false(g) for g, v in frame.rets) else FALSE
        res = frame.rets[0][1]
        for g, v in frame.rets[1:]:
            res = ite(g, v, res)
        self.guard = rg
        return res

    def zero_results(self, fn):
        rs = [self.zero(self.prog.type(t)) for t in fn.results]
        if len(rs) == 0:
            return None
        if len(rs) == 1:
            return rs[0]
        return tuple(rs)

    def child_loop(self, fn, b, cur):
        L = fn.block_loop.get(b)
        if L is None or L == cur:
            return None
        while fn.loop_parent.get(L) != cur:
            L = fn.loop_parent.get(L)
            if L is None:
                return None
            if L == cur:
                return None
        return L

    def exec_blocks(self, frame, order, cur_loop):
        fn = frame.fn
        for b in order:
            L = self.child_loop(fn, b, cur_loop)
            if L is not None:
                if b == L:
                    self.exec_loop(frame, L)
                continue
            self.exec_block(frame, b)

    def exec_loop(self, frame, h):
        fn = frame.fn
        body = fn.loops[h]
        order = [b for b in fn.rpo if b in body]
        bound = self.unwind_bound(fn, h)
        live = fn.liveout.get(h, ())
        hist = {r: [] for r in live}
        it = 0        # iterations that count towards the unwinding bound (entered under a new guard)
        total = 0
        prevG = None
        while True:
            edges = frame.in_edges.get(h, [])
            G = Or(*[e[0] for e in edges])
            if is_false(G):
                frame.in_edges.pop(h, None)
                break
            if prevG is not None and G.eq(prevG) and total < self.cfg.get("max_concrete_iters", 5000):
                # the previous iteration did not branch on anything symbolic: concrete progress, not counted
                it -= 1
            elif it >= 1 and not is_true(G):
                Gs = z3.simplify(G)
                if is_false(Gs) or (it >= self.cfg.get("prune_from_iter", 1) and fn.name not in self.cfg.get("prune_skip", ()) and not self.feasible(Gs)):
                    frame.in_edges.pop(h, None)
                    break
            prevG = G
            total += 1
            if it == bound:
                frame.in_edges.pop(h, None)
                saved = self.guard
                self.guard = TRUE
                if fn.name not in self.cfg.get("unwind_silent", ()):
                    self.oblige("unwind", Not(G), oid="unwind:%s#%d" % (fn.name, h), pos=self.block_pos(fn, h), narrow=False)
                else:
                    self.stats.setdefault("silent_cuts", []).append("%s#%d after %d iterations" % (fn.name, h, bound))
                self.guard = saved
                # paths needing more iterations are cut
                self.kills += 1
                self.assume_global(Not(G), "loop %s#%d cut after %d iterations" % (fn.name, h, bound))
                break
            self.exec_blocks(frame, order, h)
            for r in live:
                if r in frame.env and r in frame.defguard:
                    hist[r].append((frame.defguard[r], frame.env[r]))
            it += 1
        for r in live:
            hs = hist[r]
            if not hs:
                continue
            val = hs[0][1]
            dg = hs[0][0]
            for g, v in hs[1:]:
                val = ite(g, v, val)
                dg = Or(dg, g)
            frame.env[r] = val
            frame.defguard[r] = dg
        self.stats["max_iters"] = max(self.stats.get("max_iters", 0), total)

    def block_pos(self, fn, b):
        for ins in fn.blocks[b]["instrs"]:
            if "pos" in ins:
                return ins["pos"]
        return fn.pos

    def add_edge(self, frame, src, dst, g):
        if is_false(g):
            return
        fn = frame.fn
        blk = fn.blocks[dst]
        vals = []
        preds = fn.preds[dst]
        pi = None
        for ins in blk["instrs"]:
            if ins["op"] != "Phi":
                break
            if pi is None:
                pi = preds.index(src)
            vals.append(self.operand(frame, ins["edges"][pi]))
        frame.in_edges.setdefault(dst, []).append((g, src, vals))
        self.stats["edges"] += 1

    def exec_block(self, frame, b):
        fn = frame.fn
        edges = frame.in_edges.pop(b, None)
        if not edges:
            return
        G = Or(*[e[0] for e in edges])
        if is_false(G):
            return
        if len(edges) > 1 and b not in fn.loops:
            d = fn.idom.get(b)
            es = frame.end_state.get(d)
            if es is not None and es[1] == self.narrows and fn.block_loop.get(d) == fn.block_loop.get(b) and fn.postdominates(b, d):
                # every path from the dominator reaches b and nothing narrowed in between
                G = es[0]
            else:
                G = self.factor_or([e[0] for e in edges if not is_false(e[0])])
        self.stats["blocks"] += 1
        self.guard = G
        blk = fn.blocks[b]
        instrs = blk["instrs"]
        i = 0
        # phis (simultaneous)
        while i < len(instrs) and instrs[i]["op"] == "Phi":
            val = edges[0][2][i]
            for e in edges[1:]:
                val = ite(e[0], e[2][i], val)
            frame.env[instrs[i]["name"]] = val
            frame.defguard[instrs[i]["name"]] = G
            i += 1
        try:
            for ins in instrs[i:]:
                self.stats["instrs"] += 1
                if is_false(self.guard):
                    return
                self.exec_instr(frame, b, ins)
        except DeadPath as e:
            self.narrows += 1
            self.kills += 1
            if self.trace:
                print("    dead path in %s block %d: %s\n%s" % (fn.name, b, e.why, e.tb), flush=True)
            return

    def exec_instr(self, frame, b, ins):
        op = ins["op"]
        m = getattr(self, "op_" + op, None)
        if m is None:
            raise Inconclusive("unsupported instruction %s in %s" % (op, frame.fn.name))
        r = m(frame, b, ins)
        if "name" in ins:
            frame.env[ins["name"]] = r
            frame.defguard[ins["name"]] = self.guard

    # ---- terminators
    def op_Jump(self, frame, b, ins):
        frame.end_state[b] = (self.guard, self.narrows)
        self.add_edge(frame, b, frame.fn.succs[b][0], self.guard)

    def op_If(self, frame, b, ins):
        c = self.operand(frame, ins["cond"])
        c = z3.simplify(c) if not is_const(c) else c
        s = frame.fn.succs[b]
        g = self.guard
        frame.end_state[b] = (g, self.narrows)
        self.add_edge(frame, b, s[0], And(g, c))
        self.add_edge(frame, b, s[1], And(g, Not(c)))

    def op_Return(self, frame, b, ins):
        rs = [self.operand(frame, r) for r in ins["results"]]
        if len(rs) == 0:
            v = None
        elif len(rs) == 1:
            v = rs[0]
        else:
            v = tuple(rs)
        frame.rets.append((self.guard, v))
        self.narrows += 1

    def op_Panic(self, frame, b, ins):
        pos = ins.get("pos", "")
        pg = self.guard
        self.oblige("panic", FALSE, pos=pos)
        if self.panic_scopes and not is_false(pg):
            # the panic unwinds the stack: deferred calls of every frame up to the enclosing
            # Panics(...) scope run on the panicking path (their effects are visible to the harness)
            lim = self.panic_scopes[-1].depth
            for fr in reversed(self.frames[lim:]):
                for (dg, kind, target, args, dins) in reversed(fr.defers):
                    g = And(pg, dg)
                    if is_false(g):
                        continue
                    self.guard = g
                    saved_scopes = self.panic_scopes
                    try:
                        self.do_call(fr, dins, kind, target, args)
                    except DeadPath:
                        pass
        self.guard = FALSE
        self.narrows += 1
        self.kills += 1

    def op_RunDefers(self, frame, b, ins):
        g0 = self.guard
        for (dg, kind, target, args, dins) in reversed(frame.defers):
            g = And(g0, dg)
            if is_false(g):
                continue
            self.guard = g
            self.do_call(frame, dins, kind, target, args)
            # a deferred call that panics: narrow
            if not (is_true(dg) or dg.eq(g0)) or not self.guard.eq(g):
                g0 = And(g0, Or(Not(dg), self.guard))
        self.guard = g0

    # ---- values
    def op_Alloc(self, frame, b, ins):
        t = self.prog.type(ins["type"]).elem()
        oid = self.alloc(t, name="%s:%s" % (frame.fn.name.rsplit("/", 1)[-1], ins.get("comment", "")))
        return Ptr.to(oid)

    def op_Phi(self, frame, b, ins):
        raise Inconclusive("phi outside block head")

    def op_Store(self, frame, b, ins):
        p = self.operand(frame, ins["addr"])
        v = self.operand(frame, ins["val"])
        self.store(p, v, ins.get("pos", ""))

    def op_UnOp(self, frame, b, ins):
        tok = ins["tok"]
        x = self.operand(frame, ins["x"])
        if tok == "*":
            return self.load(x, ins.get("pos", ""))
        if tok == "!":
            return Not(x)
        if tok == "-":
            if z3.is_fp(x):
                return z3.fpNeg(x)
            if z3.is_bv_value(x):
                return bv(-x.as_signed_long(), x.size())
            return -x
        if tok == "^":
            return ~x
        if tok == "<-":
            return self.chan_recv(frame, ins, x)
        raise Inconclusive("unop %s" % tok)

    def tinfo(self, tid):
        u = self.prog.type(tid).under()
        return u

    def op_BinOp(self, frame, b, ins):
        x = self.operand(frame, ins["x"])
        y = self.operand(frame, ins["y"])
        tok = ins["tok"]
        xt = self.tinfo(ins["x"].get("t") or ins["type"]) if ins["x"]["k"] != "builtin" else None
        return self.binop(tok, x, y, xt, ins)

    def binop(self, tok, x, y, xt, ins):
        pos = ins.get("pos", "")
        if tok == "==":
            return eq(x, y) if not (type(x) in (Slice, Clo)) else self.nil_cmp(x, y)
        if tok == "!=":
            return Not(eq(x, y)) if not (type(x) in (Slice, Clo)) else Not(self.nil_cmp(x, y))
        k = xt.kind
        if k == "int":
            signed = xt.d["signed"]
            cx, cy = z3.is_bv_value(x), z3.is_bv_value(y)
            if tok in ("<<", ">>"):
                return self.shift(tok, x, y, signed, ins)
            if cx and cy:
                r = self.fold(tok, x, y, signed, pos)
                if r is not None:
                    return r
            if tok == "+":
                return x + y
            if tok == "-":
                return x - y
            if tok == "*":
                return x * y
            if tok == "/":
                self.oblige("div0", y != 0, pos=pos)
                return x / y if signed else z3.UDiv(x, y)
            if tok == "%":
                self.oblige("div0", y != 0, pos=pos)
                return z3.SRem(x, y) if signed else z3.URem(x, y)
            if tok == "&":
                return x & y
            if tok == "|":
                return x | y
            if tok == "^":
                return x ^ y
            if tok == "&^":
                return x & ~y
            if tok == "<":
                return x < y if signed else z3.ULT(x, y)
            if tok == "<=":
                return x <= y if signed else z3.ULE(x, y)
            if tok == ">":
                return x > y if signed else z3.UGT(x, y)
            if tok == ">=":
                return x >= y if signed else z3.UGE(x, y)
        elif k == "float":
            if z3.is_fp_value(x) and z3.is_fp_value(y) and tok in ("+", "-", "*", "/"):
                op = {"+": z3.fpAdd, "-": z3.fpSub, "*": z3.fpMul, "/": z3.fpDiv}[tok]
                return z3.simplify(op(RNE, x, y))
            if z3.is_fp_value(x) and z3.is_fp_value(y) and tok in ("<", "<=", ">", ">="):
                op = {"<": z3.fpLT, "<=": z3.fpLEQ, ">": z3.fpGT, ">=": z3.fpGEQ}[tok]
                return z3.simplify(op(x, y))
            if tok == "+":
                return z3.fpAdd(RNE, x, y)
            if tok == "-":
                return z3.fpSub(RNE, x, y)
            if tok == "*":
                return self.fp_mul(x, y)
            if tok == "/":
                return self.fp_div(x, y)
            if tok == "<":
                return z3.fpLT(x, y)
            if tok == "<=":
                return z3.fpLEQ(x, y)
            if tok == ">":
                return z3.fpGT(x, y)
            if tok == ">=":
                return z3.fpGEQ(x, y)
        elif k == "bool":
            if tok == "&&" or tok == "&":
                return And(x, y)
            if tok == "||" or tok == "|":
                return Or(x, y)
        elif k == "string":
            if tok == "+":
                return self.str_concat(x, y)
            if tok in ("<", "<=", ">", ">="):
                if x.py is not None and y.py is not None:
                    r = {"<": x.py < y.py, "<=": x.py <= y.py, ">": x.py > y.py, ">=": x.py >= y.py}[tok]
                    return TRUE if r else FALSE
        raise Inconclusive("binop %s on %s" % (tok, xt.id))

    # ---- abstraction of int64 <-> float64 conversions (cfg fp_int_abstract): uninterpreted functions
    # constrained by sound facts; the facts are discharged with exact IEEE semantics by a lemma harness
    def abs_int_to_float(self, x):
        toF = self.ghost.setdefault("toF_uf", z3.Function("i64_to_f64", BV64, F64))
        r = toF(x)
        zero = z3.FPVal(0.0, F64)
        G = self.assume_global
        G(z3.And(z3.Not(z3.fpIsNaN(r)), z3.Not(z3.fpIsInf(r)), z3.fpLEQ(z3.fpAbs(r), z3.FPVal(9223372036854775808.0, F64))), "float64(int64): finite, magnitude <= 2^63")
        G(z3.fpIsZero(r) == (x == 0), "float64(int64): zero iff zero")
        G(z3.Implies(x > 0, z3.fpGT(r, zero)), "float64(int64): sign")
        G(z3.Implies(x < 0, z3.fpLT(r, zero)), "float64(int64): sign")
        # powers of two are exact and the conversion is monotone: a coarse magnitude ladder
        for k in (0, 8, 16, 24, 32, 40, 48, 53, 58, 62):
            T = 1 << k
            G(z3.Implies(x >= T, z3.fpGEQ(r, z3.FPVal(float(T), F64))), "float64(int64): x >= 2^k => float >= 2^k")
            G(z3.Implies(x <= T, z3.fpLEQ(r, z3.FPVal(float(T), F64))), "float64(int64): x <= 2^k => float <= 2^k")
            G(z3.Implies(x <= -T, z3.fpLEQ(r, z3.FPVal(-float(T), F64))), "float64(int64): x <= -2^k => float <= -2^k")
            G(z3.Implies(x >= -T, z3.fpGEQ(r, z3.FPVal(-float(T), F64))), "float64(int64): x >= -2^k => float >= -2^k")
        apps = self.ghost.setdefault("toF_apps", [])
        for (x2, r2) in apps:
            G(z3.Implies(x <= x2, z3.fpLEQ(r, r2)), "float64(int64): monotone")
            G(z3.Implies(x2 <= x, z3.fpLEQ(r2, r)), "float64(int64): monotone")
        # link with earlier float->int truncations: float64(int64(f)) is not beyond f
        for (f2, i2) in self.ghost.setdefault("fromF_apps", []):
            # (with monotonicity of the conversion: anything not beyond the truncated integer converts to
            # something not beyond f)
            inr2 = z3.And(z3.Not(z3.fpIsNaN(f2)), z3.fpLT(z3.fpAbs(f2), z3.FPVal(9223372036854775808.0, F64)))
            G(z3.Implies(z3.And(inr2, x <= i2, z3.fpGEQ(f2, zero)), z3.fpLEQ(r, f2)), "x <= int64(f) => float64(x) <= f for f >= 0")
            G(z3.Implies(z3.And(inr2, x >= i2, z3.fpLEQ(f2, zero)), z3.fpGEQ(r, f2)), "x >= int64(f) => float64(x) >= f for f <= 0")
            G(z3.Implies(z3.And(inr2, x <= -i2, z3.fpLEQ(f2, zero), i2 != bv(-(1 << 63))), z3.fpLEQ(r, z3.fpNeg(f2))), "x <= -int64(f) => float64(x) <= -f for f <= 0")
            G(z3.Implies(z3.And(inr2, x >= -i2, z3.fpGEQ(f2, zero)), z3.fpGEQ(r, z3.fpNeg(f2))), "x >= -int64(f) => float64(x) >= -f for f >= 0")
        apps.append((x, r))
        self.refinements.append(r == z3.fpSignedToFP(RNE, x, F64))
        return r

    def abs_float_to_int(self, f):
        fromF = self.ghost.setdefault("fromF_uf", z3.Function("f64_to_i64", F64, BV64))
        r = fromF(f)
        zero = z3.FPVal(0.0, F64)
        G = self.assume_global
        inr = z3.And(z3.Not(z3.fpIsNaN(f)), z3.fpLT(z3.fpAbs(f), z3.FPVal(9223372036854775808.0, F64)))
        G(z3.Implies(z3.And(inr, z3.fpGEQ(f, zero)), r >= 0), "int64(float64): sign")
        G(z3.Implies(z3.And(inr, z3.fpLEQ(f, zero)), r <= 0), "int64(float64): sign")
        G(z3.Implies(z3.And(inr, z3.fpGEQ(z3.fpAbs(f), z3.FPVal(1.0, F64))), r != 0), "int64(float64): |f| >= 1 gives a non-zero integer")
        G(z3.Implies(z3.And(inr, z3.fpLT(z3.fpAbs(f), z3.FPVal(1.0, F64))), r == 0), "int64(float64): |f| < 1 truncates to 0")
        for k in (0, 8, 16, 24, 32, 40, 48, 53, 58, 62):
            T = 1 << k
            G(z3.Implies(z3.And(inr, z3.fpGEQ(f, z3.FPVal(float(T), F64))), r >= T), "int64(float64): f >= 2^k => int >= 2^k")
            G(z3.Implies(z3.And(inr, z3.fpLEQ(f, z3.FPVal(float(T), F64))), r <= T), "int64(float64): f <= 2^k => int <= 2^k")
            G(z3.Implies(z3.And(inr, z3.fpLEQ(f, z3.FPVal(-float(T), F64))), r <= -T), "int64(float64): f <= -2^k => int <= -2^k")
            G(z3.Implies(z3.And(inr, z3.fpGEQ(f, z3.FPVal(-float(T), F64))), r >= -T), "int64(float64): f >= -2^k => int >= -2^k")
        apps = self.ghost.setdefault("fromF_apps", [])
        for (f2, r2) in apps:
            G(z3.Implies(z3.And(inr, z3.fpLEQ(f, f2)), r <= r2), "int64(float64): monotone")
            G(z3.Implies(z3.And(inr, z3.fpLEQ(f2, f)), r2 <= r), "int64(float64): monotone")
            G(z3.Implies(z3.And(inr, z3.fpEQ(f, z3.fpNeg(f2))), r == -r2), "int64(float64): odd")
        for (x2, r2) in self.ghost.setdefault("toF_apps", []):
            # truncation is towards zero: int64(f) does not exceed an integer whose float is >= f, for f >= 0
            G(z3.Implies(z3.And(inr, z3.fpGEQ(f, zero), z3.fpLEQ(f, r2), x2 >= 0), r <= x2), "int64(f) <= x when 0 <= f <= float64(x)")
        apps.append((f, r))
        self.refinements.append(z3.Implies(inr, r == z3.fpToSBV(RTZ, f, BV64)))
        return r

    def map_const_ite(self, x, f, isconst, depth=4):
        """x is an if-then-else tree whose leaves are all constants: rebuild it with f applied to the leaves"""
        if isconst(x):
            return f(x)
        if depth > 0 and z3.is_app_of(x, z3.Z3_OP_ITE):
            a = self.map_const_ite(x.arg(1), f, isconst, depth - 1)
            b = self.map_const_ite(x.arg(2), f, isconst, depth - 1)
            if a is not None and b is not None:
                return zif(x.arg(0), a, b)
        return None

    def fp_mul(self, x, y):
        mode = self.cfg.get("fp_mul", "exact")
        if mode != "exact":
            # a small constant-leaf tree (e.g. float64(Sgn(d))) times y: distribute, each product is exact
            for a, b in ((x, y), (y, x)):
                if not self.is_fp_const(a) and z3.is_app_of(a, z3.Z3_OP_ITE):
                    def mulc(c, b=b):
                        cs = z3.simplify(z3.fpToIEEEBV(c)).as_long()
                        if cs == 0x3ff0000000000000:
                            return b
                        if cs == 0xbff0000000000000:
                            return z3.fpNeg(b)
                        return z3.fpMul(RNE, c, b)
                    t = self.map_const_ite(a, mulc, z3.is_fp_value)
                    if t is not None:
                        return t
        if mode == "exact" or self.is_fp_const(x) and self.is_fp_const(y):
            return z3.fpMul(RNE, x, y)
        if mode == "exact_const" and (self.is_fp_const(x) or self.is_fp_const(y)):
            return z3.fpMul(RNE, x, y)
        f = self.ghost.setdefault("fpmul_uf", z3.Function("fpmul", F64, F64, F64))
        self.stats["opaque_fp"] = self.stats.get("opaque_fp", 0) + 1
        r = f(x, y)
        if self.cfg.get("fp_axioms", True):
            big = z3.FPVal(1e150, F64)
            one = z3.FPVal(1.0, F64)
            ax, ay, ar = z3.fpAbs(x), z3.fpAbs(y), z3.fpAbs(r)
            nan_in = z3.Or(z3.fpIsNaN(x), z3.fpIsNaN(y), z3.And(z3.fpIsInf(x), z3.fpIsZero(y)), z3.And(z3.fpIsZero(x), z3.fpIsInf(y)))
            G = self.assume_global
            # sound facts about IEEE-754 multiplication (round to nearest even), valid for all operands
            G(z3.fpIsNaN(r) == nan_in, "fpmul: NaN exactly for NaN operands and 0*inf")
            G(z3.Implies(z3.Not(nan_in), z3.fpIsNegative(r) == z3.Xor(z3.fpIsNegative(x), z3.fpIsNegative(y))), "fpmul: sign")
            G(z3.Implies(z3.Not(nan_in), z3.fpIsZero(r) == z3.Or(z3.fpIsZero(x), z3.fpIsZero(y), z3.And(z3.fpLT(ax, z3.FPVal(1e-150, F64)), z3.fpLT(ay, z3.FPVal(1e-150, F64)), z3.fpIsZero(r)))), "fpmul: zero iff a zero operand (or underflow of two tiny operands)")
            G(z3.Implies(z3.And(z3.Not(nan_in), z3.Or(z3.fpIsInf(x), z3.fpIsInf(y))), z3.fpIsInf(r)), "fpmul: infinite operand")
            small = z3.And(z3.fpLEQ(ax, big), z3.fpLEQ(ay, big))
            G(z3.Implies(small, z3.And(z3.Not(z3.fpIsInf(r)), z3.fpLEQ(ar, z3.FPVal(1e300, F64)))), "fpmul: finite for |operands| <= 1e150")
            # monotone in the magnitude: |x*y| <= |x| when |y| <= 1, >= |x| when |y| >= 1 (|x|*1 is exact, rounding is monotone)
            G(z3.Implies(z3.And(z3.Not(nan_in), z3.fpLEQ(ay, one)), z3.fpLEQ(ar, ax)), "fpmul: |x*y| <= |x| for |y| <= 1")
            G(z3.Implies(z3.And(z3.Not(nan_in), z3.fpLEQ(ax, one)), z3.fpLEQ(ar, ay)), "fpmul: |x*y| <= |y| for |x| <= 1")
            G(z3.Implies(z3.And(z3.Not(nan_in), z3.fpGEQ(ay, one)), z3.fpGEQ(ar, ax)), "fpmul: |x*y| >= |x| for |y| >= 1")
            G(z3.Implies(z3.And(z3.Not(nan_in), z3.fpGEQ(ax, one)), z3.fpGEQ(ar, ay)), "fpmul: |x*y| >= |y| for |x| >= 1")
            # monotone in each operand against earlier applications with a shared operand
            apps = self.ghost.setdefault("fpmul_apps", [])
            for (x2, y2, r2) in apps:
                if y2.eq(y):
                    ok = z3.And(z3.Not(nan_in), z3.Not(z3.fpIsNaN(r2)), z3.fpGEQ(y, z3.FPVal(0.0, F64)))
                    G(z3.Implies(z3.And(ok, z3.fpLEQ(x, x2)), z3.fpLEQ(r, r2)), "fpmul: monotone in x for y >= 0")
                    G(z3.Implies(z3.And(ok, z3.fpLEQ(x2, x)), z3.fpLEQ(r2, r)), "fpmul: monotone in x for y >= 0")
            apps.append((x, y, r))
            self.refinements.append(r == z3.fpMul(RNE, x, y))
        return r

    def fp_div(self, x, y):
        mode = self.cfg.get("fp_mul", "exact")
        if mode == "exact" or self.is_fp_const(x) and self.is_fp_const(y):
            return z3.fpDiv(RNE, x, y)
        if mode == "exact_const" and self.is_fp_const(y):
            return z3.fpDiv(RNE, x, y)
        f = self.ghost.setdefault("fpdiv_uf", z3.Function("fpdiv", F64, F64, F64))
        self.stats["opaque_fp"] = self.stats.get("opaque_fp", 0) + 1
        r = f(x, y)
        if self.cfg.get("fp_axioms", True) and self.is_fp_const(y):
            c = float(str(z3.simplify(z3.fpToReal(y)).as_decimal(30)).rstrip("?")) if False else None
            zero = z3.FPVal(0.0, F64)
            yabs_ge1 = z3.simplify(z3.fpGEQ(z3.fpAbs(y), z3.FPVal(1.0, F64)))
            if z3.is_true(yabs_ge1):
                fin = z3.And(z3.Not(z3.fpIsNaN(x)), z3.Not(z3.fpIsInf(x)))
                self.assume_global(z3.Implies(fin, z3.And(z3.Not(z3.fpIsNaN(r)), z3.Not(z3.fpIsInf(r)), z3.fpLEQ(z3.fpAbs(r), z3.fpAbs(x)))), "fpdiv by constant |c| >= 1: finite, |x/c| <= |x|")
                ypos = z3.is_true(z3.simplify(z3.fpGT(y, zero)))
                if ypos:
                    self.assume_global(z3.Implies(z3.And(fin, z3.fpGEQ(x, zero)), z3.fpGEQ(r, zero)), "fpdiv: sign")
                    self.assume_global(z3.Implies(z3.And(fin, z3.fpLEQ(x, zero)), z3.fpLEQ(r, zero)), "fpdiv: sign")
        return r

    @staticmethod
    def is_fp_const(x):
        return z3.is_fp_value(x)

    def nil_cmp(self, x, y):
        # slices / funcs may only be compared with nil
        if type(x) is Slice:
            other = y
            if type(other) is Slice and not is_true(other.base.is_nil_cond()):
                x, other = y, x
            return x.base.is_nil_cond()
        if type(x) is Clo:
            a = x
            if all(f is None for c, f, bd in a.alts):
                a = y
            return Or(*[c for c, f, bd in a.alts if f is None])
        raise Inconclusive("nil_cmp")

    def fold(self, tok, x, y, signed, pos):
        bits = x.size()
        a = x.as_signed_long() if signed else x.as_long()
        c = y.as_signed_long() if signed else y.as_long()
        if tok == "+":
            return bv(a + c, bits)
        if tok == "-":
            return bv(a - c, bits)
        if tok == "*":
            return bv(a * c, bits)
        if tok in ("/", "%"):
            if c == 0:
                self.oblige("div0", FALSE, pos=pos)
                raise DeadPath()
            q = abs(a) // abs(c)
            if (a < 0) != (c < 0):
                q = -q
            if tok == "/":
                return bv(q, bits)
            return bv(a - q * c, bits)
        if tok == "&":
            return bv(a & c, bits)
        if tok == "|":
            return bv(a | c, bits)
        if tok == "^":
            return bv(a ^ c, bits)
        if tok == "&^":
            return bv(a & ~c, bits)
        if tok == "<":
            return TRUE if a < c else FALSE
        if tok == "<=":
            return TRUE if a <= c else FALSE
        if tok == ">":
            return TRUE if a > c else FALSE
        if tok == ">=":
            return TRUE if a >= c else FALSE
        return None

    def shift(self, tok, x, y, signed, ins):
        xb = x.size()
        yt = self.tinfo(ins["y"]["t"])
        ysigned = yt.kind == "int" and yt.d["signed"]
        yb = y.size()
        if ysigned:
            self.oblige("shift", y >= 0, pos=ins.get("pos", ""))
        # bring y to x's width, saturating
        if yb > xb:
            big = z3.UGE(y, bv(xb, yb))
            y2 = z3.Extract(xb - 1, 0, y)
            y2 = zif(big, bv(xb, xb), y2)
        elif yb < xb:
            y2 = z3.ZeroExt(xb - yb, y)
        else:
            y2 = y
        if z3.is_bv_value(x) and z3.is_bv_value(y2):
            return z3.simplify(x << y2 if tok == "<<" else ((x >> y2) if signed else z3.LShR(x, y2)))
        if z3.is_bv_value(y2):
            pass
        else:
            y2 = z3.simplify(y2)
        if tok == "<<":
            return x << y2
        return (x >> y2) if signed else z3.LShR(x, y2)

    def str_concat(self, x, y):
        if x.py is not None and y.py is not None:
            return self.str_const(x.py + y.py)
        f = self.ghost.setdefault("strcat_uf", z3.Function("strcat", StrSort, StrSort, StrSort))
        return Str(None, f(x.term, y.term), x.len + y.len)

    def op_Convert(self, frame, b, ins):
        x = self.operand(frame, ins["x"])
        return self.convert(x, self.prog.type(ins["x"]["t"]), self.prog.type(ins["type"]), ins)

    def convert(self, x, st, dt, ins):
        su, du = st.under(), dt.under()
        pos = ins.get("pos", "")
        if su.kind == "int" and du.kind == "int":
            sb, db = su.d["bits"], du.d["bits"]
            if db == sb:
                return x
            if db < sb:
                if z3.is_bv_value(x):
                    return bv(x.as_long(), db)
                return z3.Extract(db - 1, 0, x)
            if z3.is_bv_value(x):
                return bv(x.as_signed_long() if su.d["signed"] else x.as_long(), db)
            return z3.SignExt(db - sb, x) if su.d["signed"] else z3.ZeroExt(db - sb, x)
        if su.kind == "int" and du.kind == "float":
            srt = F64 if du.d["bits"] == 64 else F32
            if z3.is_bv_value(x):
                return z3.FPVal(float(x.as_signed_long() if su.d["signed"] else x.as_long()), srt)
            t = self.map_const_ite(x, lambda c: z3.FPVal(float(c.as_signed_long() if su.d["signed"] else c.as_long()), srt), z3.is_bv_value)
            if t is not None:
                return t
            if self.cfg.get("fp_int_abstract") and su.d["bits"] == 64 and su.d["signed"] and du.d["bits"] == 64:
                return self.abs_int_to_float(x)
            if su.d["signed"]:
                return z3.fpSignedToFP(RNE, x, srt)
            return z3.fpUnsignedToFP(RNE, x, srt)
        if su.kind == "float" and du.kind == "int":
            db = du.d["bits"]
            signed = du.d["signed"]
            # Go: out-of-range conversion is implementation-defined -> obligation that it is in range
            lo = float(-(1 << (db - 1))) if signed else 0.0
            hi = float(1 << (db - 1)) if signed else float(1 << db)
            srt = x.sort()
            inr = And(Not(z3.fpIsNaN(x)), z3.fpGEQ(x, z3.FPVal(lo, srt)) if signed else z3.fpGT(x, z3.FPVal(-1.0, srt)), z3.fpLT(x, z3.FPVal(hi, srt)))
            if not self.cfg.get("fp_conv_unchecked", False):
                self.oblige("conv", inr, pos=pos)
            if self.cfg.get("fp_int_abstract") and signed and db == 64 and x.sort() == F64:
                return self.abs_float_to_int(x)
            if signed:
                return z3.fpToSBV(RTZ, x, z3.BitVecSort(db))
            return z3.fpToUBV(RTZ, x, z3.BitVecSort(db))
        if su.kind == "float" and du.kind == "float":
            if su.d["bits"] == du.d["bits"]:
                return x
            return z3.fpFPToFP(RNE, x, F64 if du.d["bits"] == 64 else F32)
        if su.kind == "string" and du.kind == "slice":
            return self.string_to_bytes(x)
        if su.kind == "slice" and du.kind == "string":
            return self.bytes_to_string(x)
        if su.kind == "int" and du.kind == "string":
            return self.fresh_str("runestr")
        if du.kind == "unsafeptr" or su.kind == "unsafeptr":
            return x
        if su.kind == du.kind:
            return x
        raise Inconclusive("convert %s -> %s" % (st.id, dt.id))

    def string_to_bytes(self, s):
        if s.py is not None:
            data = s.py.encode()
            arr = z3.K(BV64, bv(0, 8))
            for i, c in enumerate(data):
                arr = z3.Store(arr, bv(i), bv(c, 8))
            oid = self.alloc(None, ZA(arr, len(data)), name="[]byte(str)")
            n = bv(len(data))
            return Slice(Ptr.to(oid), bv(0), n, n)
        # symbolic string: bytes are an uninterpreted function of the string
        f = self.ghost.setdefault("strbytes_uf", z3.Function("strbytes", StrSort, z3.ArraySort(BV64, z3.BitVecSort(8))))
        oid = self.alloc(None, ZA(f(s.term), None), name="[]byte(symstr)")
        return Slice(Ptr.to(oid), bv(0), s.len, s.len)

    def bytes_to_string(self, sl):
        # string(b): abstract injection on (length, content) -- content compared only through the UF
        n = z3.simplify(sl.len)
        if z3.is_bv_value(n) and n.as_long() <= 64:
            cs = []
            k = n.as_long()
            for i in range(k):
                cs.append(self.slice_get(sl, bv(i)))
            if all(z3.is_bv_value(z3.simplify(c)) for c in cs):
                return self.str_const(bytes(z3.simplify(c).as_long() for c in cs).decode("latin1"))
        # a function of (length, content): equal byte strings give equal strings (congruence)
        B = self.cfg.get("str_bound", 16)
        self.oblige("bound", z3.ULE(sl.len, bv(B)), oid="string(bytes)-len<=%d" % B)
        g0 = self.guard
        bs = []
        for i in range(B):
            inb = z3.ULT(bv(i), sl.len)
            self.guard = And(g0, inb)
            if is_false(self.guard):
                bs.append(bv(0, 8))
                continue
            try:
                b_ = self.slice_get(sl, bv(i))
            except DeadPath:
                b_ = bv(0, 8)
            bs.append(zif(inb, b_, bv(0, 8)))
        self.guard = g0
        f = self.ghost.get("strof_uf")
        if f is None:
            f = self.ghost["strof_uf"] = z3.Function("strof", *([BV64] + [z3.BitVecSort(8)] * B + [StrSort]))
        t = f(sl.len, *bs)
        return Str(None, t, sl.len)

    def op_ChangeType(self, frame, b, ins):
        return self.operand(frame, ins["x"])

    def op_ChangeInterface(self, frame, b, ins):
        return self.operand(frame, ins["x"])

    def op_MakeInterface(self, frame, b, ins):
        x = self.operand(frame, ins["x"])
        return Iface(((TRUE, ins["xtype"], x),))

    def op_MakeClosure(self, frame, b, ins):
        fn = ins["fn"]["n"]
        bs = [self.operand(frame, x) for x in ins["bindings"]]
        return Clo.of(fn, bs)

    def op_FieldAddr(self, frame, b, ins):
        p = self.operand(frame, ins["x"])
        f = ins["field"]
        if type(p) is not Ptr:
            raise Inconclusive("FieldAddr of %r" % (p,))
        nilc = p.is_nil_cond()
        if not is_false(nilc):
            self.oblige("nil", Not(nilc), pos=ins.get("pos", ""))
        alts = []
        for c, t in p.alts:
            if t is None:
                continue
            if t.idx is not None:
                raise Inconclusive("FieldAddr through indexed target")
            alts.append((c, Tgt(t.obj, t.path + (f,))))
        if not alts:
            raise DeadPath()
        return Ptr(alts)

    def op_Field(self, frame, b, ins):
        x = self.operand(frame, ins["x"])
        if type(x) is TV:
            raise Inconclusive("field access into time.Time")
        return x.f[ins["field"]]

    def op_IndexAddr(self, frame, b, ins):
        x = self.operand(frame, ins["x"])
        idx = self.operand(frame, ins["index"])
        idx = self.to64(idx, ins["index"])
        pos = ins.get("pos", "")
        if type(x) is Slice:
            self.oblige("bounds", z3.ULT(idx, x.len), pos=pos)
            return self.elem_ptr(x.base, self.addc(x.off, idx), pos)
        if type(x) is Ptr:
            # pointer to array
            at = self.prog.type(ins["x"]["t"]).elem().under()
            n = at.d["len"]
            self.oblige("bounds", z3.ULT(idx, bv(n)), pos=pos)
            return self.elem_ptr(x, idx, pos)
        raise Inconclusive("IndexAddr on %r" % (x,))

    def addc(self, a, b_):
        if z3.is_bv_value(a) and z3.is_bv_value(b_):
            return bv(a.as_long() + b_.as_long())
        if z3.is_bv_value(a) and a.as_long() == 0:
            return b_
        if z3.is_bv_value(b_) and b_.as_long() == 0:
            return a
        return a + b_

    def to64(self, v, opnd=None):
        if v.size() == 64:
            return v
        signed = True
        if opnd is not None and "t" in opnd:
            u = self.tinfo(opnd["t"])
            signed = u.d.get("signed", True)
        if z3.is_bv_value(v):
            return bv(v.as_signed_long() if signed else v.as_long())
        return z3.SignExt(64 - v.size(), v) if signed else z3.ZeroExt(64 - v.size(), v)

    def elem_ptr(self, base, idx, pos=""):
        """pointer to element idx of the array(s) base points to"""
        nilc = base.is_nil_cond()
        if not is_false(nilc):
            self.oblige("nil", Not(nilc), pos=pos)
        alts = []
        for c, t in base.alts:
            if t is None:
                continue
            arr = self.get_path(self.mem[t.obj], t.path)
            if type(arr) is ZA:
                alts.append((c, Tgt(t.obj, t.path, idx)))
            elif type(arr) is AV:
                if z3.is_bv_value(idx):
                    i = idx.as_long()
                    if i < len(arr.e):
                        alts.append((c, Tgt(t.obj, t.path + (i,))))
                else:
                    si = z3.simplify(idx)
                    if z3.is_bv_value(si):
                        i = si.as_long()
                        if i < len(arr.e):
                            alts.append((c, Tgt(t.obj, t.path + (i,))))
                    else:
                        for i in range(len(arr.e)):
                            alts.append((And(c, si == bv(i)), Tgt(t.obj, t.path + (i,))))
            else:
                raise Inconclusive("elem_ptr into %r" % (arr,))
        alts = [(c, t) for c, t in alts if not is_false(c)]
        if not alts:
            raise DeadPath("elem_ptr idx=%s base=%s" % (idx, base))
        return Ptr(alts)

    def op_Index(self, frame, b, ins):
        x = self.operand(frame, ins["x"])
        idx = self.to64(self.operand(frame, ins["index"]), ins["index"])
        pos = ins.get("pos", "")
        if type(x) is ZA:
            self.oblige("bounds", z3.ULT(idx, bv(x.n)), pos=pos)
            return x.read(idx)
        if type(x) is AV:
            self.oblige("bounds", z3.ULT(idx, bv(len(x.e))), pos=pos)
            si = z3.simplify(idx)
            if z3.is_bv_value(si):
                return x.e[si.as_long()]
            r = x.e[0]
            for i in range(1, len(x.e)):
                r = ite(si == bv(i), x.e[i], r)
            return r
        if type(x) is Str:
            self.oblige("bounds", z3.ULT(idx, x.len), pos=pos)
            if x.py is not None and z3.is_bv_value(idx):
                return bv(x.py.encode()[idx.as_long()], 8)
            f = self.ghost.setdefault("strbytes_uf", z3.Function("strbytes", StrSort, z3.ArraySort(BV64, z3.BitVecSort(8))))
            return z3.Select(f(x.term), idx)
        raise Inconclusive("Index on %r" % (x,))

    def op_Slice(self, frame, b, ins):
        x = self.operand(frame, ins["x"])
        lo = self.operand(frame, ins["low"]) if ins.get("low") else None
        hi = self.operand(frame, ins["high"]) if ins.get("high") else None
        mx = self.operand(frame, ins["max"]) if ins.get("max") else None
        lo = self.to64(lo, ins["low"]) if lo is not None else bv(0)
        pos = ins.get("pos", "")
        if type(x) is Str:
            hi = self.to64(hi, ins["high"]) if hi is not None else x.len
            self.oblige("bounds", And(z3.ULE(lo, hi), z3.ULE(hi, x.len)), pos=pos)
            if x.py is not None and z3.is_bv_value(lo) and z3.is_bv_value(hi):
                return self.str_const(x.py.encode()[lo.as_long():hi.as_long()].decode("latin1"))
            f = self.ghost.setdefault("substr_uf", z3.Function("substr", StrSort, BV64, BV64, StrSort))
            return Str(None, f(x.term, lo, hi), hi - lo)
        if type(x) is Slice:
            base, off, ln, cp = x.base, x.off, x.len, x.cap
            hi = self.to64(hi, ins["high"]) if hi is not None else ln
            mx = self.to64(mx, ins["max"]) if mx is not None else cp
            if ins.get("max"):
                self.oblige("bounds", And(z3.ULE(lo, hi), z3.ULE(hi, mx), z3.ULE(mx, cp)), pos=pos)
            else:
                self.oblige("bounds", And(z3.ULE(lo, hi), z3.ULE(hi, cp)), pos=pos)
            return Slice(base, self.addc(off, lo), self.subc(hi, lo), self.subc(mx, lo))
        if type(x) is Ptr:
            at = self.prog.type(ins["x"]["t"]).elem().under()
            n = bv(at.d["len"])
            hi = self.to64(hi, ins["high"]) if hi is not None else n
            mx = self.to64(mx, ins["max"]) if mx is not None else n
            self.oblige("bounds", And(z3.ULE(lo, hi), z3.ULE(hi, mx), z3.ULE(mx, n)), pos=pos)
            nilc = x.is_nil_cond()
            if not is_false(nilc):
                self.oblige("nil", Not(nilc), pos=pos)
            return Slice(x, lo, self.subc(hi, lo), self.subc(mx, lo))
        raise Inconclusive("Slice on %r" % (x,))

    def subc(self, a, b_):
        if z3.is_bv_value(a) and z3.is_bv_value(b_):
            return bv(a.as_long() - b_.as_long())
        if z3.is_bv_value(b_) and b_.as_long() == 0:
            return a
        return z3.simplify(a - b_)

    def op_MakeSlice(self, frame, b, ins):
        t = self.prog.type(ins["type"])
        et = t.elem()
        ln = self.to64(self.operand(frame, ins["len"]), ins["len"])
        cp = self.to64(self.operand(frame, ins["cap"]), ins["cap"])
        pos = ins.get("pos", "")
        self.oblige("makeslice", And(ln >= 0, z3.ULE(ln, cp), cp >= 0), pos=pos)
        return self.make_slice(et, ln, cp)

    def make_slice(self, et, ln, cp, name="make"):
        bits = self.int_elem_bits(et)
        if bits is not None:
            oid = self.alloc(None, ZA(z3.K(BV64, bv(0, bits)), None), name=name)
            return Slice(Ptr.to(oid), bv(0), ln, cp)
        c = z3.simplify(cp)
        if not z3.is_bv_value(c):
            n = self.cfg.get("slice_cap_bound", 8)
            self.oblige("bound", z3.ULE(cp, bv(n)), oid="slicecap:%s" % name, narrow=True)
        else:
            n = c.as_long()
        z = self.zero(et)
        oid = self.alloc(None, AV([z] * n), name=name)
        return Slice(Ptr.to(oid), bv(0), ln, cp)

    def slice_get(self, sl, i):
        p = self.elem_ptr(sl.base, self.addc(sl.off, i))
        return self.load(p)

    def slice_set(self, sl, i, v):
        p = self.elem_ptr(sl.base, self.addc(sl.off, i))
        self.store(p, v)

    def op_Extract(self, frame, b, ins):
        t = self.operand(frame, ins["tuple"])
        return t[ins["index"]]

    def op_TypeAssert(self, frame, b, ins):
        x = self.operand(frame, ins["x"])
        at = self.prog.type(ins["asserted"])
        pos = ins.get("pos", "")
        if type(x) is not Iface:
            raise Inconclusive("TypeAssert on %r" % (x,))
        if at.under().kind == "iface":
            need = at.under().d["methods"]
            okc = []
            alts = []
            for c, t, p in x.alts:
                if t is None:
                    alts.append((c, None, None))
                    continue
                ms = self.prog.methodsets.get(t, {})
                if t == "$err":
                    has = need == ["Error"] or need == []
                elif t.startswith("$"):
                    has = True
                else:
                    has = all(m in ms for m in need)
                if has:
                    okc.append(c)
                    alts.append((c, t, p))
                else:
                    alts.append((c, None, None))
            ok = Or(*okc)
            val = norm_iface(alts)
        else:
            okc = []
            val = None
            for c, t, p in x.alts:
                if t == at.id:
                    okc.append(c)
                    val = p if val is None else ite(c, p, val)
            ok = Or(*okc)
            if val is None:
                val = self.zero(at)
        if ins["commaok"]:
            return (val, ok)
        self.oblige("typeassert", ok, pos=pos)
        return val

    def op_MakeMap(self, frame, b, ins):
        oid = self.alloc(None, MapV(()), name="map")
        return Ptr.to(oid)

    def map_obj(self, m, pos=""):
        t = m.single()
        if t is None:
            raise Inconclusive("map value is not a single concrete object")
        return t.obj

    def op_Lookup(self, frame, b, ins):
        x = self.operand(frame, ins["x"])
        k = self.operand(frame, ins["index"])
        if type(x) is Str:
            # string indexing
            idx = self.to64(k, ins["index"])
            self.oblige("bounds", z3.ULT(idx, x.len), pos=ins.get("pos", ""))
            if x.py is not None and z3.is_bv_value(idx):
                return bv(x.py.encode()[idx.as_long()], 8)
            f = self.ghost.setdefault("strbytes_uf", z3.Function("strbytes", StrSort, z3.ArraySort(BV64, z3.BitVecSort(8))))
            return z3.Select(f(x.term), idx)
        mt = self.prog.type(ins["x"]["t"]).under()
        vt = self.prog.type(mt.d["elem"])
        nilc = x.is_nil_cond()
        val = self.zero(vt)
        ok = FALSE
        for c, t in x.alts:
            if t is None:
                continue
            mv = self.mem[t.obj]
            for (p, mk, v) in mv.ents:
                hit = And(c, p, eq(mk, k))
                val = ite(hit, v, val)
                ok = Or(ok, hit)
        if ins["commaok"]:
            return (val, ok)
        return val

    def op_MapUpdate(self, frame, b, ins):
        m = self.operand(frame, ins["map"])
        k = self.operand(frame, ins["key"])
        v = self.operand(frame, ins["value"])
        nilc = m.is_nil_cond()
        if not is_false(nilc):
            self.oblige("nilmap", Not(nilc), pos=ins.get("pos", ""))
        for c, t in m.alts:
            if t is None:
                continue
            g = And(self.guard, c)
            mv = self.mem[t.obj]
            ents = []
            exists = FALSE
            for (p, mk, ov) in mv.ents:
                hit = And(p, eq(mk, k))
                ents.append((p, mk, ite(And(g, hit), v, ov)))
                exists = Or(exists, hit)
            newp = And(g, Not(exists))
            if not is_false(newp):
                ents.append((newp, k, v))
            self.mem[t.obj] = MapV(ents)

    def map_delete(self, m, k):
        for c, t in m.alts:
            if t is None:
                continue
            g = And(self.guard, c)
            mv = self.mem[t.obj]
            ents = [(And(p, Not(And(g, eq(mk, k)))), mk, ov) for (p, mk, ov) in mv.ents]
            self.mem[t.obj] = MapV(ents)

    def map_len(self, m):
        n = bv(0)
        for c, t in m.alts:
            if t is None:
                continue
            mv = self.mem[t.obj]
            base = self.ghost.get(("maplen_extra", t.obj))
            s = bv(0) if base is None else base
            for (p, mk, ov) in mv.ents:
                s = s + zif(p, bv(1), bv(0))
            n = zif(c, s, n)
        return z3.simplify(n)

    def op_Range(self, frame, b, ins):
        x = self.operand(frame, ins["x"])
        if type(x) is Ptr:
            t = x.single()
            if t is None:
                raise Inconclusive("range over non-concrete map")
            # iterator state: [tag, map object, cursor (index of the last entry produced), calls]
            return ["mapiter", t.obj, bv(-1), 0]
        raise Inconclusive("range over %r" % (x,))

    def op_Next(self, frame, b, ins):
        it = self.operand(frame, ins["iter"])
        if it[0] != "mapiter":
            raise Inconclusive("Next")
        mv = self.mem[it[1]]
        tt = self.prog.type(ins["type"]).d["elems"]
        kt, vt = self.prog.type(tt[1]), self.prog.type(tt[2])
        kz = self.zero(kt) if kt.kind != "invalid" else None
        vz = self.zero(vt) if vt.kind != "invalid" else None
        cur, calls = it[2], it[3]
        ok = FALSE
        key, val, newcur = kz, vz, cur
        taken = FALSE
        # entries are produced in list order; the k-th call can only produce an entry at index >= k
        for j in range(calls, len(mv.ents)):
            p, mk, v = mv.ents[j]
            sel = And(p, bv(j) > cur, Not(taken))
            if is_false(sel):
                continue
            taken = Or(taken, sel)
            if kz is not None:
                key = ite(sel, mk, key)
            if vz is not None:
                val = ite(sel, v, val)
            newcur = zif(sel, bv(j), newcur)
        ok = taken
        it[2] = zif(self.guard, newcur, cur)
        it[3] = calls + 1
        return (ok, key, val)

    # ---- calls
    def op_Call(self, frame, b, ins):
        kind, target, args = self.resolve_call(frame, ins)
        return self.do_call(frame, ins, kind, target, args)

    def op_Defer(self, frame, b, ins):
        kind, target, args = self.resolve_call(frame, ins)
        frame.defers.append((self.guard, kind, target, args, ins))
        return None

    def op_Go(self, frame, b, ins):
        kind, target, args = self.resolve_call(frame, ins)
        h = self.intercepts.get("$go")
        if h is None:
            raise Inconclusive("go statement without scheduler model in %s" % frame.fn.name)
        return h(self, frame, ins, kind, target, args)

    def resolve_call(self, frame, ins):
        args = [self.operand(frame, a) for a in ins["args"]]
        if ins.get("invoke"):
            recv = self.operand(frame, ins["recv"])
            return ("invoke", (recv, ins["method"]), args)
        if "static" in ins and ins["fn"]["k"] == "func":
            return ("static", ins["static"], args)
        fnv = ins["fn"]
        if fnv["k"] == "builtin":
            return ("builtin", fnv["n"], args)
        f = self.operand(frame, fnv)
        return ("dynamic", f, args)

    def do_call(self, frame, ins, kind, target, args):
        if kind == "static":
            fn = ins.get("static") if isinstance(target, str) else target
            # closure called statically (MakeClosure result invoked directly)
            if ins["fn"]["k"] == "reg":
                clo = self.operand(frame, ins["fn"])
                return self.call_closure(clo, args, ins)
            return self.call_function(target, args, (), ins)
        if kind == "builtin":
            return self.builtin(target, args, ins, frame)
        if kind == "dynamic":
            return self.call_closure(target, args, ins)
        if kind == "invoke":
            recv, method = target
            return self.invoke(recv, method, args, ins)
        raise Inconclusive("call kind %s" % kind)

    def call_closure(self, clo, args, ins):
        if type(clo) is not Clo:
            raise Inconclusive("call of non-function %r" % (clo,))
        g0 = self.guard
        res = None
        outg = FALSE
        nilc = Or(*[c for c, f, bd in clo.alts if f is None])
        if not is_false(nilc):
            self.oblige("nil", Not(nilc), pos=ins.get("pos", "") if ins else "")
            g0 = self.guard
        for c, f, bd in clo.alts:
            if f is None:
                continue
            self.guard = And(g0, c)
            if is_false(self.guard):
                continue
            r = self.call_function(f, args, bd, ins)
            res = r if res is None else ite(c, r, res)
            outg = Or(outg, self.guard)
        self.guard = outg
        return res

    def invoke(self, recv, method, args, ins):
        if type(recv) is not Iface:
            raise Inconclusive("invoke on %r" % (recv,))
        g0 = self.guard
        pos = ins.get("pos", "") if ins else ""
        nilc = recv.is_nil_cond()
        if not is_false(nilc):
            self.oblige("nil", Not(nilc), pos=pos)
            g0 = self.guard
        res = None
        outg = FALSE
        for c, t, p in recv.alts:
            if t is None:
                continue
            self.guard = And(g0, c)
            if is_false(self.guard):
                continue
            r = self.invoke_one(t, p, method, args, ins)
            res = r if res is None else ite(c, r, res)
            outg = Or(outg, self.guard)
        self.guard = outg
        if res is None and is_false(outg):
            raise DeadPath()
        return res

    def invoke_one(self, t, payload, method, args, ins):
        h = self.intercepts.get("$invoke:%s.%s" % (t, method))
        if h is not None:
            self.stats["stubs"].add("%s.%s" % (t, method))
            return h(self, payload, args, ins)
        if t.startswith("$"):
            h = self.intercepts.get("$invoke:%s.*" % t)
            if h is not None:
                return h(self, payload, method, args, ins)
            raise Inconclusive("invoke %s on abstract %s" % (method, t))
        ms = self.prog.methodsets.get(t)
        if ms is None or method not in ms:
            raise Inconclusive("no method %s on %s" % (method, t))
        return self.call_function(ms[method], [payload] + list(args), (), ins)

    # ---- builtins
    def builtin(self, name, args, ins, frame):
        pos = ins.get("pos", "")
        if name == "len":
            x = args[0]
            if type(x) is Slice:
                return x.len
            if type(x) is Str:
                return x.len
            if type(x) is Ptr:   # map or pointer to array
                at = self.prog.type(ins["args"][0]["t"]).under()
                if at.kind == "map":
                    return self.map_len(x)
                if at.kind == "chan":
                    raise Inconclusive("len(chan)")
                return bv(at.elem().under().d["len"])
            if type(x) is ZA:
                return bv(x.n)
            if type(x) is AV:
                return bv(len(x.e))
        if name == "cap":
            x = args[0]
            if type(x) is Slice:
                return x.cap
            if type(x) is ZA:
                return bv(x.n)
            if type(x) is AV:
                return bv(len(x.e))
            if type(x) is Ptr:
                at = self.prog.type(ins["args"][0]["t"]).under()
                return bv(at.elem().under().d["len"])
        if name == "append":
            return self.append(args[0], args[1], ins)
        if name == "copy":
            return self.copy(args[0], args[1], ins)
        if name == "delete":
            self.map_delete(args[0], args[1])
            return None
        if name in ("min", "max"):
            t = self.tinfo(ins["type"])
            r = args[0]
            for a in args[1:]:
                if t.kind == "int":
                    lt = (a < r) if t.d["signed"] else z3.ULT(a, r)
                    if name == "max":
                        lt = (a > r) if t.d["signed"] else z3.UGT(a, r)
                    r = zif(lt, a, r)
                else:
                    raise Inconclusive("min/max on %s" % t.id)
            return r
        if name in ("print", "println"):
            return None
        if name == "ssa:wrapnilchk":
            return args[0]
        if name == "close":
            return self.chan_close(args[0], ins)
        if name == "clear":
            raise Inconclusive("clear")
        raise Inconclusive("builtin %s(%r)" % (name, args))

    def conc(self, t):
        s = z3.simplify(t)
        if z3.is_bv_value(s):
            return s.as_long()
        return None

    def upper_bound(self, t, hint):
        """smallest concrete upper bound for unsigned term t among candidates, via solver; else None"""
        c = self.conc(t)
        if c is not None:
            return c
        return None

    def append(self, s, e, ins):
        # e is a slice (append(s, e...)) or a string
        pos = ins.get("pos", "")
        st = self.prog.type(ins["type"])
        et = st.elem()
        if type(e) is Str:
            e = self.string_to_bytes(e)
        k = e.len
        kc = self.conc(k)
        if kc is None:
            kc = self.cfg.get("append_bound", self.copy_bound)
            self.oblige("bound", z3.ULE(k, bv(kc)), oid="appendlen@%s" % pos, pos=pos)
        if kc == 0:
            return s
        newlen = z3.simplify(s.len + k)
        fits = z3.simplify(z3.ULE(newlen, s.cap))
        g0 = self.guard
        # in-place branch
        res_in = None
        if not is_false(fits):
            self.guard = And(g0, fits)
            for i in range(kc):
                gi = self.guard
                if not z3.is_bv_value(k):
                    self.guard = And(gi, z3.ULT(bv(i), k))
                self.slice_set(Slice(s.base, s.off, newlen, s.cap), self.addc(s.len, bv(i)), self.slice_get(e, bv(i)))
                self.guard = gi
            res_in = Slice(s.base, s.off, newlen, s.cap)
            self.guard = g0
        if is_true(fits):
            return res_in
        # reallocation branch: new object whose content equals the old array (copied as a term)
        self.guard = And(g0, Not(fits))
        bits = self.int_elem_bits(et)
        lc = self.conc(s.len)
        if bits is not None:
            # build content: old content shifted to offset 0
            arr = None
            for c, t in s.base.alts:
                if t is None:
                    continue
                a = self.get_path(self.mem[t.obj], t.path)
                arr = a.flush() if arr is None else zif(c, a.flush(), arr)
            if arr is None:
                arr = z3.K(BV64, bv(0, bits))
                off = bv(0)
            else:
                off = s.off
            oid = self.alloc(None, ZA(arr, None), name="append")
            ns = Slice(Ptr.to(oid), off, newlen, self.fresh_cap(newlen))
        else:
            if lc is None:
                lc = self.cfg.get("slice_cap_bound", 8)
                self.oblige("bound", z3.ULE(s.len, bv(lc)), oid="appendbase@%s" % pos, pos=pos)
            n = lc + kc
            z = self.zero(et)
            elems = []
            for i in range(n):
                if i < lc:
                    gi = self.guard
                    inb = z3.ULT(bv(i), s.len)
                    if is_false(z3.simplify(inb)):
                        elems.append(z)
                        continue
                    self.guard = And(gi, inb)
                    try:
                        v = self.slice_get(s, bv(i))
                    except DeadPath:
                        v = z   # beyond the backing array: cannot be inside the slice
                    self.guard = gi
                    elems.append(ite(inb, v, z))
                else:
                    elems.append(z)
            oid = self.alloc(None, AV(elems), name="append")
            ns = Slice(Ptr.to(oid), bv(0), newlen, bv(n))
        for i in range(kc):
            gi = self.guard
            if not z3.is_bv_value(k):
                self.guard = And(gi, z3.ULT(bv(i), k))
            self.slice_set(ns, self.addc(s.len, bv(i)), self.slice_get(e, bv(i)))
            self.guard = gi
        self.guard = g0
        if res_in is None:
            return ns
        return ite(fits, res_in, ns)

    def fresh_cap(self, newlen):
        c = self.conc(newlen)
        if c is not None:
            return bv(c)
        cp = self.fresh_bv("cap", 64)
        self.assume_global(And(z3.UGE(cp, newlen), z3.ULT(cp, bv(1 << 40))), "append: new capacity >= new length")
        return cp

    def copy(self, dst, src, ins):
        pos = ins.get("pos", "")
        if type(src) is Str:
            src = self.string_to_bytes(src)
        n = z3.simplify(zif(z3.ULT(dst.len, src.len), dst.len, src.len))
        nc = self.conc(n)
        if nc is None:
            nc = self.copy_bound
            self.oblige("bound", z3.ULE(n, bv(nc)), oid="copylen@%s" % pos, pos=pos)
        # read all first (memmove semantics)
        vals = []
        g0 = self.guard
        for i in range(nc):
            if not z3.is_bv_value(n):
                self.guard = And(g0, z3.ULT(bv(i), n))
            vals.append(self.slice_get(src, bv(i)))
        for i in range(nc):
            if not z3.is_bv_value(n):
                self.guard = And(g0, z3.ULT(bv(i), n))
            self.slice_set(dst, bv(i), vals[i])
        self.guard = g0
        return n

    # ---- channels / select: only via scheduler stubs
    def op_MakeChan(self, frame, b, ins):
        oid = self.alloc(None, ChanV(()), name="chan")
        return Ptr.to(oid)

    def op_Send(self, frame, b, ins):
        h = self.intercepts.get("$send")
        if h is None:
            raise Inconclusive("channel send without scheduler model")
        return h(self, frame, ins, self.operand(frame, ins["chan"]), self.operand(frame, ins["x"]))

    def chan_recv(self, frame, ins, ch):
        h = self.intercepts.get("$recv")
        if h is None:
            raise Inconclusive("channel receive without scheduler model")
        return h(self, frame, ins, ch)

    def chan_close(self, ch, ins):
        h = self.intercepts.get("$close")
        if h is None:
            raise Inconclusive("close(chan) without scheduler model")
        return h(self, ins, ch)

    def op_Select(self, frame, b, ins):
        h = self.intercepts.get("$select")
        if h is None:
            raise Inconclusive("select without scheduler model")
        states = []
        for s in ins["states"]:
            states.append((s["dir"], self.operand(frame, s["chan"]), self.operand(frame, s["send"]) if "send" in s else None))
        return h(self, frame, ins, states)

    def op_SliceToArrayPointer(self, frame, b, ins):
        x = self.operand(frame, ins["x"])
        at = self.prog.type(ins["type"]).elem().under()
        n = at.d["len"]
        self.oblige("bounds", z3.UGE(x.len, bv(n)), pos=ins.get("pos", ""))
        off = self.conc(x.off)
        if off != 0:
            raise Inconclusive("SliceToArrayPointer with non-zero offset")
        return x.base

    # ------------------------------------------------------------ entry
    def run_entry(self, name):
        fn = self.prog.func(name)
        if fn is None:
            raise Inconclusive("entry %s not exported" % name)
        self.guard = TRUE
        return self.run_function(fn, [], ())


class DeadPath(Exception):
    def __init__(self, why=""):
        import traceback
        self.why = why
        self.tb = "".join(traceback.format_stack(limit=6))
