import sys, os
sys.path.insert(0, os.path.dirname(os.path.dirname(os.path.abspath(__file__))))
from symex import summaries
ID = "C18"
PATTERNS = ["./base/unixutil", "./net/csptp", "./driver/clocks"]
HARNESS_FILES = ["base/unixutil/zz_verif_c18.go", "net/csptp/zz_verif_c18.go", "driver/clocks/zz_verif_c18.go"]
M = "example.com/scion-time/"
HARNESSES = [
    {"name": "timeval", "fn": M + "base/unixutil.VerifC18Timeval", "bounds": "every int64"},
    {"name": "freqfacts", "fn": M + "base/unixutil.VerifC18FreqFacts", "bounds": "every int64 scaled-ppm value", "cfg": {"fp_mul": "exact"}},
    {"name": "freqroundtrip", "fn": M + "base/unixutil.VerifC18FreqRoundTrip", "bounds": "|x| <= 2^8 (exact FP division and multiplication by 6.5536e10)", "cfg": {"fp_mul": "exact"}, "thorough_only": True},
    {"name": "timestamp", "fn": M + "net/csptp.VerifC18Timestamp", "cfg": {"time_mode": "pair"}, "bounds": "all 48-bit seconds, all ns < 1e9"},
    {"name": "timestamppanics", "fn": M + "net/csptp.VerifC18TimestampPanics", "cfg": {"time_mode": "pair"}, "bounds": "|sec| <= 2^50"},
    {"name": "timestampwire", "fn": M + "net/csptp.VerifC18TimestampFromWire", "cfg": {"time_mode": "pair"}, "bounds": "every 6-byte seconds field, nanoseconds < 1e9"},
    {"name": "interval", "fn": M + "net/csptp.VerifC18Interval", "bounds": "every int64"},
    {"name": "formulas", "fn": M + "net/csptp.VerifC18Formulas", "cfg": {"time_mode": "ns64"}, "bounds": "instants < 2^58 ns, |theta|, d, corrections < 2^58 ns"},
    {"name": "drift", "fn": M + "driver/clocks.VerifC18Drift", "bounds": "every duration"},
    {"name": "driftshape", "fn": M + "driver/clocks.VerifC18DriftShape", "install": [summaries.install_fp_duration_summaries], "cfg": {"fp_mul": "exact_const"},
     "bounds": "intervals 0..2^62 ns, drift rates in (0, 0.01]: zero for zero, never negative, monotone in the interval (consequences of proportionality that do not need the exact floating-point product)"},
]
ASSUMPTIONS = [
    "time.Time modelled by contract (pair model for timestamps, ns64 for the delay/offset formulas)",
    "NOT DECIDED: frequency <-> scaled-ppm round trip beyond |x| <= 2^8 and the exact value of the drift allowance are exact floating-point multiply/divide statements no back end decides (DESIGN C18); of 'proportional to the interval' the check decides: zero for a zero interval, sign, monotonicity in the interval",
]
EXPLANATION = "unit conversions executed from go/ssa over full-width symbolic inputs"
CLAIMED = True
LEVEL_TEXT = "Bounded model checking of the real conversion functions over full-width symbolic inputs (every int64, every 48-bit second count, every int64 correction). Floating-point clauses: only sign/zero facts and the round trip for |x| <= 2^8 are decided; of drift proportionality the consequences zero/sign/monotonicity are decided (the exact FP product is out of solver reach)."
LEVEL_NOTE = "time.Time by contract (pair / ns64 model); the frequency round trip beyond the stated range and the exact drift product are not claimed; solvers trusted."
