ID = "C04"
PATTERNS = ["./net/ntp"]
HARNESS_FILES = ["net/ntp/zz_verif_c04.go"]
P = "example.com/scion-time/net/ntp."
ENGINE_CFG = {"time_mode": "pair"}
HARNESSES = [
    {"name": "roundtrip", "fn": P + "VerifC04RoundTrip", "bounds": "t in 1970..2514 (sec < 2^34), reference within +-2^31 s, all 10^9 sub-second values"},
    {"name": "order", "fn": P + "VerifC04Order", "bounds": "two instants and one reference, same ranges"},
    {"name": "orderfrac", "fn": P + "VerifC04OrderFrac", "bounds": "all ns <= ns2 < 1e9; all 32-bit fractions f <= f2, any seconds field, any reference"},
    {"name": "fields", "fn": P + "VerifC04Fields", "bounds": "all sec < 2^34, all ns"},
]
ASSUMPTIONS = [
    "time.Time modelled by contract as (sec, nsec) pair: Unix()=sec, Nanosecond()=nsec, time.Unix normalises (DESIGN 4.0)",
    "instants outside 1970..2514 and references farther than 2^31 s are outside the claim",
]
EXPLANATION = "Time64FromTime/TimeFromTime64 executed from go/ssa; assertions in component form (seconds equal, nanoseconds differ by 0..1)"
