ID = "C04"
PATTERNS = ["./net/ntp"]
HARNESS_FILES = ["net/ntp/zz_verif_c04.go"]
P = "example.com/scion-time/net/ntp."
ENGINE_CFG = {"time_mode": "pair"}
HARNESSES = [
    {"name": "roundtrip", "fn": P + "VerifC04RoundTrip", "bounds": "t in 1970..2514 (sec < 2^34), reference within +-2^31 s, all 10^9 sub-second values"},
    {"name": "order", "fn": P + "VerifC04Order", "bounds": "two instants and one reference, same ranges"},
    {"name": "orderfrac", "fn": P + "VerifC04OrderFrac", "bounds": "all ns <= ns2 < 1e9; all 32-bit fractions f <= f2, any seconds field, any reference"},
    {"name": "fields", "fn": P + "VerifC04Fields", "bounds": "all sec < 2^34, all ns"},
]
ASSUMPTIONS = [
    "time.Time modelled by contract as (sec, nsec) pair: Unix()=sec, Nanosecond()=nsec, time.Unix normalises (DESIGN 4.0)",
    "instants outside 1970..2514 and references farther than 2^31 s are outside the claim",
]
EXPLANATION = "Time64FromTime/TimeFromTime64 executed from go/ssa; assertions in component form (seconds equal, nanoseconds differ by 0..1)"
CLAIMED = True
LEVEL_TEXT = "Bounded model checking of the real conversion functions: for every instant 1970..2514 (all 10^9 sub-second values) and every reference within 2^31 s the round trip, order and field obligations are decided by SMT (unsat = holds for all values in range). The range is the only bound; there are no loops."
LEVEL_NOTE = "time.Time is modelled by its documented contract as a (sec,nsec) pair (Unix, Nanosecond, time.Unix normalisation) instead of executing the std library; solvers trusted (portfolio, cross-checked); instants beyond 2514 outside the claim."
