import sys, os
sys.path.insert(0, os.path.dirname(os.path.dirname(os.path.abspath(__file__))))
from symex import summaries
ID = "C07"
PATTERNS = ["./core/server"]
HARNESS_FILES = ["core/server/zz_verif_c06.go", "core/server/zz_verif_c07.go"]
S = "example.com/scion-time/core/server."
ENGINE_CFG = {"time_mode": "pair", "opaque_globals": [S + "tssMetrics"],
              "guarded_globals": {S + "tss": S + "tssMu", S + "tssQ": S + "tssMu"},
              "prune_skip": [S + "handleRequest"],
              "unwind": {S + "handleRequest": 3, S + "updateTXTimestamp": 3, "container/heap.up": 4, "container/heap.down": 4}}
INSTALL = [summaries.install_time64_summary]
RO = {"core/server/server_test.go": "core/server/zz_empty_server_test.go.txt"}
HARNESSES = [
    {"name": "heap2", "fn": S + "VerifC07Heap2", "bounds": "2 clients, arbitrary keys, any of pop / key change + fix / remove", "replay_overlay": RO},
    {"name": "heap3", "fn": S + "VerifC07Heap3", "bounds": "3 clients", "replay_overlay": RO},
    {"name": "heap4", "fn": S + "VerifC07Heap4", "bounds": "4 clients", "replay_overlay": RO},
    {"name": "heap5", "fn": S + "VerifC07Heap5", "bounds": "5 clients", "replay_overlay": RO, "thorough_only": True, "cfg": {"unwind": {"container/heap.up": 5, "container/heap.down": 5}}},
    {"name": "eviction", "fn": S + "VerifC07Eviction", "bounds": "store with 2^20 or 2^20-1 clients of which two are materialised (the least recently active one among them); arbitrary request from an unknown client", "replay_overlay": RO, "replay_timeout": 120, "replay_mem_gb": 12, "race_driver": "VerifC07RaceDriver"},
    {"name": "rank", "fn": S + "VerifC07Rank", "bounds": "record of <= 2 exchanges, arbitrary request", "replay_overlay": RO, "race_driver": "VerifC07RaceDriver"},
]
HARNESSES.append({"name": "rankupdate3", "fn": S + "VerifC07RankUpdate3", "bounds": "record of <= 3 exchanges (one may be pending), arbitrary transmit-timestamp update", "replay_overlay": RO, "race_driver": "VerifC07RaceDriver", "cfg": {"unwind": {S + "handleRequest": 4, S + "updateTXTimestamp": 4, "container/heap.up": 4, "container/heap.down": 4}}})
HARNESSES.append({"name": "rankupdate4", "fn": S + "VerifC07RankUpdate4", "bounds": "record of <= 4 exchanges", "replay_overlay": RO, "thorough_only": True, "race_driver": "VerifC07RaceDriver", "cfg": {"unwind": {S + "handleRequest": 5, S + "updateTXTimestamp": 5, "container/heap.up": 4, "container/heap.down": 4}}})
ASSUMPTIONS = ["the 2^20 - 2 clients not involved in the operation are abstract: they only contribute to len(tss); the materialised least-recently-active client is the global minimum of the index (natively: real dummy entries with maximal keys)",
               "data-race freedom and equivalence to a sequential order are argued from the lock set: every access to tss / tssQ from the two operations happens with tssMu held (obligation on every access) and the mutex is released on exit; the Go memory model and runtime are trusted",
               "Time64FromTime summary (see C06)"]
EXPLANATION = ""
CLAIMED = True
LEVEL_TEXT = "Bounded model checking of the real tssQueue methods with the real container/heap on small heaps (arbitrary keys; pop / fix / remove), of the eviction branch of handleRequest on a store whose size is the real capacity 2^20 (all but two clients abstract), of the ranking invariant, and of the lock set (each access to the shared store from handleRequest / updateTXTimestamp is an obligation 'tssMu is held'; released on exit)."
LEVEL_NOTE = "heaps of <= 4 (quick) / 5 clients; eviction with two materialised clients; concurrency covered by the lock-set argument only (no interleaving exploration); Go runtime trusted."
