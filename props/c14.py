ID = "C14"
PATTERNS = ["./net/ntp", "./net/csptp"]
HARNESS_FILES = ["net/ntp/zz_verif_c14.go", "net/csptp/zz_verif_c14.go"]
M = "example.com/scion-time/"
HARNESSES = [
    {"name": "ntpvalue", "fn": M + "net/ntp.VerifC14NTPValueRoundTrip", "bounds": "every Packet value (all fields full width)"},
    {"name": "ntpbytes", "fn": M + "net/ntp.VerifC14NTPBytesRoundTrip", "bounds": "every buffer of 0..52 bytes"},
    {"name": "ntpsetters", "fn": M + "net/ntp.VerifC14NTPSetters", "bounds": "every header, every li/vn/mode"},
    {"name": "csptpmsg", "fn": M + "net/csptp.VerifC14CSPTPMessage", "bounds": "every Message value; every buffer of 0..48 bytes"},
    {"name": "csptpreq", "fn": M + "net/csptp.VerifC14CSPTPRequestTLV", "bounds": "every RequestTLV value"},
    {"name": "csptpresp", "fn": M + "net/csptp.VerifC14CSPTPResponseTLV", "bounds": "every ResponseTLV value; every 54-byte buffer"},
]
ASSUMPTIONS = []
EXPLANATION = "codecs executed from go/ssa on fully symbolic values and buffers"
import sys, os
sys.path.insert(0, os.path.dirname(os.path.dirname(os.path.abspath(__file__))))
from symex import stubs as _stubs
PATTERNS += ["./net/nts", "./net/ntske"]
HARNESS_FILES += ["net/nts/zz_verif_c10.go", "net/ntske/zz_verif_c10.go"]
INSTALL = [_stubs.install_aead]
HARNESSES += [
    {"name": "ntsfields0", "fn": M + "net/nts.VerifC14NTSFields0", "bounds": "unique id 32 bytes, one 8-byte cookie, no placeholder, authenticator"},
    {"name": "ntsfields2", "fn": M + "net/nts.VerifC14NTSFields2", "bounds": "... two 8-byte placeholders"},
    {"name": "ntsfields7", "fn": M + "net/nts.VerifC14NTSFields7", "bounds": "... seven 16-byte placeholders", "thorough_only": True},
    {"name": "ntspadded5", "fn": M + "net/nts.VerifC14NTSFieldsPadded5", "bounds": "one 5-byte cookie (padded to 8), one placeholder"},
    {"name": "ntspadded7", "fn": M + "net/nts.VerifC14NTSFieldsPadded7", "bounds": "one 7-byte cookie (padded to 8), two placeholders"},
    {"name": "cookiekeys32x64", "fn": M + "net/ntske.VerifC14CookieKeys32x64", "bounds": "server cookie with a 32-byte S2C and a 64-byte C2S key"},
    {"name": "cookiekeys64x32", "fn": M + "net/ntske.VerifC14CookieKeys64x32", "bounds": "server cookie with a 64-byte S2C and a 32-byte C2S key"},
    {"name": "cookiekeys0x16", "fn": M + "net/ntske.VerifC14CookieKeys0x16", "bounds": "server cookie with an empty S2C and a 16-byte C2S key"},
    {"name": "cookies", "fn": M + "net/ntske.VerifC10Cookie", "bounds": "server cookie with 32-byte keys, sealed and encoded by the real code"},
]
CLAIMED = True
LEVEL_TEXT = "Bounded model checking of the real codecs on fully symbolic values and buffers: NTP header (value->bytes->value, bytes->value->bytes, accessors vs. first byte, setters), CSPTP message and request/response TLVs at their declared lengths, NTS extension fields (each decodes as the kind encoded, 4-byte aligned), server cookies (plain and encrypted)."
LEVEL_NOTE = "NTS fields with a 32-byte id and 8/16-byte (aligned) or 5/7-byte (padded) cookies; NTS-KE records and the segmentation independence of the record stream are covered by C20's ReadData harness, not here; ideal AEAD for the authenticator."
