ID = "C14"
PATTERNS = ["./net/ntp", "./net/csptp"]
HARNESS_FILES = ["net/ntp/zz_verif_c14.go", "net/csptp/zz_verif_c14.go"]
M = "example.com/scion-time/"
HARNESSES = [
    {"name": "ntpvalue", "fn": M + "net/ntp.VerifC14NTPValueRoundTrip", "bounds": "every Packet value (all fields full width)"},
    {"name": "ntpbytes", "fn": M + "net/ntp.VerifC14NTPBytesRoundTrip", "bounds": "every buffer of 0..52 bytes"},
    {"name": "ntpsetters", "fn": M + "net/ntp.VerifC14NTPSetters", "bounds": "every header, every li/vn/mode"},
    {"name": "csptpmsg", "fn": M + "net/csptp.VerifC14CSPTPMessage", "bounds": "every Message value; every buffer of 0..48 bytes"},
    {"name": "csptpreq", "fn": M + "net/csptp.VerifC14CSPTPRequestTLV", "bounds": "every RequestTLV value"},
    {"name": "csptpresp", "fn": M + "net/csptp.VerifC14CSPTPResponseTLV", "bounds": "every ResponseTLV value; every 54-byte buffer"},
]
ASSUMPTIONS = []
EXPLANATION = "codecs executed from go/ssa on fully symbolic values and buffers"
