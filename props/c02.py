ID = "C02"
PATTERNS = ["./base/timemath", "./core/measurements"]
HARNESS_FILES = ["base/timemath/zz_verif_c02.go", "core/measurements/zz_verif_c02.go"]
MM = "example.com/scion-time/core/measurements."
T = "example.com/scion-time/base/timemath."
HARNESSES = [{"name": "midpoint", "fn": T + "VerifC02Midpoint", "bounds": "|x|,|y| < 2^62"},
             {"name": "empty", "fn": T + "VerifC02Empty", "bounds": "n = 0, 1"}]
for n in range(1, 10):   # n = 10: within-correct-range undecided at 600 s by all back ends
    HARNESSES.append({"name": "ftm%d" % n, "fn": T + "VerifC02FTM%d" % n, "bounds": "n=%d values |v| < 2^62, any placement of floor((n-1)/3) faulty ones" % n, "thorough_only": n > 5})
for n in range(1, 8):    # n = 8: within-min-max undecided at 600 s
    HARNESSES.append({"name": "median%d" % n, "fn": T + "VerifC02Median%d" % n, "bounds": "n=%d" % n, "thorough_only": n > 5})
for n in range(2, 6):    # n = 6: order-independence undecided at 600 s
    HARNESSES.append({"name": "perm%d" % n, "fn": T + "VerifC02Perm%d" % n, "bounds": "FTM, n=%d, any adjacent transposition of the inputs" % n, "thorough_only": n > 4})
    HARNESSES.append({"name": "permM%d" % n, "fn": T + "VerifC02PermM%d" % n, "bounds": "Median, n=%d, any adjacent transposition of the inputs" % n, "thorough_only": n > 4})
HARNESSES.append({"name": "mmidpoint", "fn": MM + "VerifC02MMidpoint", "bounds": "|offsets| < 2^62, instants < 2^62 ns"})
HARNESSES.append({"name": "mempty", "fn": MM + "VerifC02MEmpty", "bounds": "n = 0"})
for n in range(1, 9):
    HARNESSES.append({"name": "mftm%d" % n, "fn": MM + "VerifC02MFTM%d" % n, "bounds": "n=%d measurements" % n, "thorough_only": n > 4})
for n in range(1, 7):
    HARNESSES.append({"name": "mmedian%d" % n, "fn": MM + "VerifC02MMedian%d" % n, "bounds": "n=%d measurements" % n, "thorough_only": n > 4})
ASSUMPTIONS = ["slices.Sort / slices.SortFunc replaced by their contract (arbitrary sorted permutation)"]
EXPLANATION = "timemath/measurements selection functions executed from go/ssa; sort by contract"
CLAIMED = True
LEVEL_TEXT = "Bounded model checking: for each n up to the tier bound, all n-tuples of 64-bit offsets below 2^62, every placement of the floor((n-1)/3) arbitrary values and every adjacent transposition of the inputs are covered by solver queries over the real selection code; the sort is replaced by its contract (any sorted permutation)."
LEVEL_NOTE = "slices.Sort/SortFunc are contract stubs (arbitrary sorted permutation, real comparator closure executed); n above the tier bound (quick 5/4; thorough: FTM 9, median 7, order-independence 5, measurements see harness list - the next larger n was tried and left undecided by all back ends within 600 s per obligation) is outside the claim; time.Time in the ns64 contract model."
