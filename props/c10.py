import sys, os
sys.path.insert(0, os.path.dirname(os.path.dirname(os.path.abspath(__file__))))
from symex import stubs
ID = "C10"
PATTERNS = ["./net/nts", "./net/ntske"]
HARNESS_FILES = ["net/nts/zz_verif_c10.go", "net/ntske/zz_verif_c10.go"]
N = "example.com/scion-time/net/nts."
K = "example.com/scion-time/net/ntske."
INSTALL = [stubs.install_aead]
ENGINE_CFG = {"default_unwind": 14, "aead_bound": 160}
HARNESSES = [
    {"name": "request8", "fn": N + "VerifC10Request8", "bounds": "request with a 32-byte id and an 8-byte cookie; adversary packet of the same length and extension layout, all other bytes and the key arbitrary"},
    {"name": "response", "fn": N + "VerifC10Response", "bounds": "response with one 8-byte cookie; layout-preserving adversary, arbitrary key and request id"},
    {"name": "responsetrailing", "fn": N + "VerifC10ResponseTrailing", "bounds": "genuine response followed by 36 arbitrary bytes; arbitrary request id"},
    {"name": "requesttrailing", "fn": N + "VerifC10RequestTrailing", "bounds": "genuine request followed by 36 arbitrary bytes"},
    {"name": "requesttrailingfield", "fn": N + "VerifC10RequestTrailingField", "bounds": "genuine request followed by one well-formed 36-byte extension field of any non-authenticator type and arbitrary content"},
    {"name": "responsetrailingfield", "fn": N + "VerifC10ResponseTrailingField", "bounds": "genuine response followed by one such field; arbitrary request id"},
    {"name": "tamperauthhdr", "fn": N + "VerifC10TamperAuthHeader", "bounds": "genuine request (32-byte id, 8-byte cookie); type bytes and low length bytes of the authenticator field header replaced by every other value <= 48"},
    {"name": "tamperresphdr", "fn": N + "VerifC10TamperResponseAuthHeader", "bounds": "genuine response; type bytes and low length bytes of the authenticator field header replaced by every other value <= 48", "cfg": {"copy_bound": 64, "aead_bound": 160}},
    {"name": "otherid32", "fn": N + "VerifC10ResponseOtherID32", "bounds": "authentic response carrying an arbitrary 32-byte identifier vs. an arbitrary outstanding identifier"},
    {"name": "otherid36", "fn": N + "VerifC10ResponseOtherID36", "bounds": "authentic response carrying an arbitrary 36-byte identifier (e.g. the outstanding one plus four bytes)"},
    {"name": "cookie", "fn": K + "VerifC10Cookie", "bounds": "cookie with 32-byte keys; arbitrary second key"},
    {"name": "cookietamper", "fn": K + "VerifC10CookieTamper", "bounds": "cookie with the sealed layout and arbitrary nonce / ciphertext bytes", "thorough_only": True},
]
ASSUMPTIONS = ["AES-SIV replaced by the ideal AEAD: Open succeeds exactly on (key, nonce, ciphertext, associated data) tuples produced by Seal",
               "soundness is checked against adversary packets that keep the extension-field layout (types and lengths) of the sealed packet; packets with a different layout are covered for crash-freedom by C08 but not for acceptance here"]
EXPLANATION = ""
CLAIMED = True
LEVEL_TEXT = "Bounded model checking of the real NTS encoder / decoder / ProcessRequest / ProcessResponse and of the cookie seal/open code against an ideal AEAD: completeness (own packets accepted under the same key) and soundness against every layout-preserving adversary packet and every other key / request id: acceptance implies equal key, equal bytes before the authenticator, equal nonce and ciphertext, equal unique id; cookies open only under the sealing key and yield the sealed algorithm and keys; additionally: bytes or a well-formed extension field appended after the authenticator change nothing that is accepted, one changed header byte of the authenticator field (type, low length bytes) does not get a request or response accepted without the sealed nonce and ciphertext, and an authentic response to a different (also longer) unique identifier is refused."
LEVEL_NOTE = "AES-SIV replaced by the ideal AEAD (INT-CTXT + correctness); adversary packets keep the extension layout of the sealed packet, change one header byte of the authenticator field (values <= 48) or append 36 bytes (fully symbolic layouts are covered for crash-freedom only, C08); unique id 32 bytes, cookie 8 bytes; the key-direction use in the server loop and ExportKeys are covered by C20/not at all (see DESIGN)."
