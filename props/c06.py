ID = "C06"
PATTERNS = ["./core/server"]
HARNESS_FILES = ["core/server/zz_verif_c06.go"]
S = "example.com/scion-time/core/server."
ENGINE_CFG = {"time_mode": "pair", "opaque_globals": [S + "tssMetrics"]}
RO = {"core/server/server_test.go": "core/server/zz_empty_server_test.go.txt"}
def hcfg(n):
    # the scan loop runs at most len <= n times; the uniqueness loop restarts at most n times
    # (n stored stamps cannot collide with n+1 strictly increasing candidates): both bounds are
    # checked by unwinding obligations
    return {"prune_skip": [S + "handleRequest"], "unwind": {S + "handleRequest": n + 1, S + "updateTXTimestamp": n + 1, "container/heap.up": 3, "container/heap.down": 3}}


HARNESSES = [
    {"name": "handle2", "fn": S + "VerifC06Handle2", "bounds": "record of <= 2 exchanges; scan and uniqueness loops unwound 3x with unwinding obligations", "replay_overlay": RO, "cfg": hcfg(2)},
    {"name": "handlefull", "fn": S + "VerifC06HandleFull", "bounds": "record at capacity (8 exchanges, arbitrary stamps), receive stamp colliding with none of them: one pass of the uniqueness loop (unwinding obligation), scan loop unwound 9x", "replay_overlay": RO,
     "cfg": {"prune_skip": [S + "handleRequest"], "unwind": {S + "handleRequest#4": 1, S + "handleRequest#7": 9, "container/heap.up": 3, "container/heap.down": 3}}},
    {"name": "update2", "fn": S + "VerifC06Update2", "bounds": "record of <= 2 exchanges, arbitrary rx/tx instants", "replay_overlay": RO, "cfg": hcfg(2)},
    {"name": "update4", "fn": S + "VerifC06Update4", "bounds": "record of <= 4 exchanges", "replay_overlay": RO, "thorough_only": True, "cfg": hcfg(4)},
    {"name": "update8", "fn": S + "VerifC06Update8", "bounds": "record of <= 8 exchanges", "replay_overlay": RO, "thorough_only": True, "cfg": hcfg(8)},
    {"name": "handle4", "fn": S + "VerifC06Handle4", "bounds": "record of <= 4 exchanges", "replay_overlay": RO, "thorough_only": True, "cfg": hcfg(4)},
]
import sys, os
sys.path.insert(0, os.path.dirname(os.path.dirname(os.path.abspath(__file__))))
from symex import summaries
INSTALL = [summaries.install_time64_summary]
ASSUMPTIONS = ["ntp.Time64FromTime replaced by its summary (exact seconds field, fraction = strictly increasing uninterpreted function of the nanoseconds); the summary's contract is discharged on the real function by C04 (orderfrac, fields)",
               "all instants inside NTP era 0 (1970..2036): Time64 Before/After compare raw fields, cross-era behaviour is outside the claim"]
EXPLANATION = ""
CLAIMED = True
LEVEL_TEXT = "Bounded model checking of one inductive step of each of the two real operations (handleRequest, updateTXTimestamp, with the real container/heap and map code) from an arbitrary per-client record satisfying the representation invariant, an arbitrary request, arbitrary receive stamp and clock readings: every obligation (reply fields in basic and interleaved mode, uniqueness of receive stamps, recording/dropping of transmit stamps, isolation of other clients, absence of panics, loop unwinding) is decided by SMT. Records are bounded to 2 exchanges plus the at-capacity case (quick) / 4 exchanges for handleRequest and 8 for updateTXTimestamp (thorough)."
LEVEL_NOTE = "handleRequest from an arbitrary record of up to 8 exchanges was tried (handle8) and left 5 obligations undecided at 600 s each, so it is not registered: the capacity case is covered by handlefull (record of exactly 8, receive stamp colliding with none), general records up to 4; Time64FromTime replaced by a summary whose contract C04 discharges on the real function (counterexamples are re-solved with the exact definition before replay); times by contract (pair model) within NTP era 0; clock = arbitrary reading per call; metrics are no-ops; one other client materialised; pre-states restricted to the stated invariant (final exchanges have tx after rx; at most the exchange being updated is pending)."
