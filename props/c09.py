ID = "C09"
PATTERNS = ["./net/ntp"]
HARNESS_FILES = ["net/ntp/zz_verif_c09.go"]
P = "example.com/scion-time/net/ntp."
HARNESSES = [
    {"name": "validate", "fn": P + "VerifC09ValidateRequest", "bounds": "every header (all 256 first bytes symbolically), every source port"},
    {"name": "replynotrequest", "fn": P + "VerifC09ReplyNotARequest", "bounds": "every header"},
]
ASSUMPTIONS = []
EXPLANATION = ""
CLAIMED = True
LEVEL_TEXT = "Bounded model checking (all inputs, no loop) of ntp.ValidateRequest against the predicate of the property text over every header and port, of the anti-reflection facts (no server-mode packet and no packet passing ValidateResponseMetadata is a valid request) and of the reply header bytes the server builds."
LEVEL_NOTE = "Only the decision functions are covered: that the listener loop sends exactly one reply to the sender's address for exactly these payloads (and the NTS branch) is NOT covered by a harness; the reply fields are covered by C06."
