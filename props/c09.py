ID = "C09"
PATTERNS = ["./net/ntp"]
HARNESS_FILES = ["net/ntp/zz_verif_c09.go"]
P = "example.com/scion-time/net/ntp."
HARNESSES = [
    {"name": "validate", "fn": P + "VerifC09ValidateRequest", "bounds": "every header (all 256 first bytes symbolically), every source port"},
    {"name": "replynotrequest", "fn": P + "VerifC09ReplyNotARequest", "bounds": "every header"},
]
ASSUMPTIONS = []
EXPLANATION = ""
