import sys, os
sys.path.insert(0, os.path.dirname(os.path.dirname(os.path.abspath(__file__))))
from symex import sched, summaries, stubs
import importlib.util
_spec = importlib.util.spec_from_file_location("c03prop", os.path.join(os.path.dirname(os.path.abspath(__file__)), "c03.py"))
_c03 = importlib.util.module_from_spec(_spec)
_spec.loader.exec_module(_c03)
ID = "C09"
PATTERNS = ["./net/ntp", "./core/server"]
HARNESS_FILES = ["net/ntp/zz_verif_c09.go", "core/server/zz_verif_c06.go", "core/server/zz_verif_c09.go", "core/server/zz_verif_c09_metrics.go"]
P = "example.com/scion-time/net/ntp."
S = "example.com/scion-time/core/server."
EXEC_PKGS = ["net", "net/netip", "internal/byteorder"]
REDIRECT = {
    "(*net.UDPConn).Close": S + "c09Close",
    "(*net.UDPConn).WriteToUDPAddrPort": S + "c09Write",
    "(*net.UDPConn).ReadMsgUDPAddrPort": S + "c09Read",
    "example.com/scion-time/net/udp.EnableTimestamping": S + "c09EnableTimestamping",
    "example.com/scion-time/net/udp.SetDSCP": S + "c09SetDSCP",
    "example.com/scion-time/net/udp.TimestampLen": S + "c09TimestampLen",
    "example.com/scion-time/net/udp.ReadTXTimestamp": S + "c09ReadTXTimestamp",
    "example.com/scion-time/net/udp.TimestampFromOOBData": S + "c09TimestampFromOOB",
}
EXTRA_ENTRIES = sorted(set(REDIRECT.values()))


def install_listener(E):
    _c03.REDIRECT_SAVED = dict(_c03.REDIRECT)
    _c03.REDIRECT.clear()
    _c03.REDIRECT.update(REDIRECT)
    try:
        _c03.install_net(E)
    finally:
        _c03.REDIRECT.clear()
        _c03.REDIRECT.update(_c03.REDIRECT_SAVED)

    def addr_string(E, name, args, ins):
        ip = args[0]
        import z3
        from symex.vals import StrSort, BV64, Str
        f = E.ghost.setdefault("addr_str_uf", z3.Function("addr_str", BV64, BV64, StrSort))
        t = f(ip.f[0].f[0], ip.f[0].f[1])
        return Str(None, t, E.strlen(t))
    E.intercepts["(net/netip.Addr).String"] = addr_string


def native_feasible(E):
    """side conditions under which a counterexample can be played through real loopback sockets"""
    import z3
    cs = []
    for nm, inp in E.inputs.items():
        base = nm.split("@")[0]
        t = inp["term"]
        if base in ("dg.readerr", "write.fails"):
            cs.append(z3.Not(t))
        elif base == "dg.flags":
            cs.append(t == 0)
        elif base == "dg.src.ip":
            k = int(nm.split("@")[1]) if "@" in nm else 0
            if k % 4 == 0:
                cs.append(t == 127)
            elif k % 4 == 3:
                cs.append(z3.And(z3.UGE(t, 2), z3.ULE(t, 250)))
        elif base == "dg.src.port":
            cs.append(z3.And(z3.UGE(t, 20000), z3.ULE(t, 60000)))
    return cs


LISTENER_CFG = {"time_mode": "pair", "opaque_globals": _c03.NETIP_GLOBALS + [S + "tssMetrics"], "default_unwind": 6,
                "prune_skip": [S + "handleRequest"],
                "unwind": {S + "handleRequest": 3, S + "updateTXTimestamp": 3, "container/heap.up": 3, "container/heap.down": 3, S + "runIPServer": 4}}
LISTENER_INSTALL = [sched.install, stubs.install_aead, install_listener, summaries.install_time64_summary]
RO = {"core/server/server_test.go": "core/server/zz_empty_server_test.go.txt"}
HARNESSES = [
    {"name": "validate", "fn": P + "VerifC09ValidateRequest", "bounds": "every header (all 256 first bytes symbolically), every source port"},
    {"name": "replynotrequest", "fn": P + "VerifC09ReplyNotARequest", "bounds": "every header"},
]
HARNESSES += [
    {"name": "listener1", "fn": S + "VerifC09Listener1", "cfg": LISTENER_CFG, "install": LISTENER_INSTALL, "replay_overlay": RO, "native_feasible": native_feasible,
     "bounds": "IP listener, one arbitrary datagram of 0..56 bytes from an arbitrary source, arbitrary read errors / flags / kernel stamps / write failure"},
    {"name": "listenerafterdrop1", "fn": S + "VerifC09ListenerAfterDrop1", "cfg": dict(LISTENER_CFG, unwind=dict(LISTENER_CFG["unwind"], **{S + "runIPServer": 5})), "install": LISTENER_INSTALL, "replay_overlay": RO, "native_feasible": native_feasible,
     "bounds": "IP listener, a dropped 1-byte datagram (arbitrary content and source) followed by one arbitrary datagram of 0..56 bytes: the second is answered exactly as if it were the first (a datagram longer than the receive buffer is cut off and flagged, as by recvmsg)"},
    {"name": "listenerafterdrop47", "fn": S + "VerifC09ListenerAfterDrop47", "cfg": dict(LISTENER_CFG, unwind=dict(LISTENER_CFG["unwind"], **{S + "runIPServer": 5})), "install": LISTENER_INSTALL, "replay_overlay": RO, "native_feasible": native_feasible,
     "bounds": "same with a dropped 47-byte datagram", "thorough_only": True},
]
ASSUMPTIONS = ["socket and kernel-timestamp functions of the IP listener are redirected to adversary functions in the harness; counterexamples are re-solved under replayability side conditions (loopback source address, no forced I/O errors) and replayed through real loopback sockets against the real listener",
               "datagrams up to 56 bytes: too short to carry a valid NTS request, so every datagram longer than 48 bytes must stay unanswered; the authenticated branch and the SCION listener are not covered"]
EXPLANATION = ""
CLAIMED = True
LEVEL_TEXT = "Bounded model checking of ntp.ValidateRequest against the predicate of the property text over every header and port, of the anti-reflection facts (no server-mode packet and no packet passing ValidateResponseMetadata is a valid request), of the reply header bytes the server builds, and of the real IP listener loop (runIPServer) against an adversarial socket: one arbitrary datagram, and a dropped 1-byte (thorough: 47-byte) datagram followed by an arbitrary one - exactly one reply, to the sender's address and port, for exactly the valid plain requests; counterexamples replayed against the real listener on loopback."
LEVEL_NOTE = "IP listener only (the SCION listener is not encoded: C13 N/A); datagrams up to 56 bytes, so the NTS branch is entered only to be rejected (the authenticated branch is C11's server harness); two fully arbitrary datagrams (listener2) were tried and the engine did not finish executing the second loop round within 20 minutes, so that harness is not registered: sequences are covered as 'dropped short datagram, then arbitrary datagram'; socket/kernel-stamp functions are adversary stubs; reply fields are C06's."
