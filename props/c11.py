import sys, os
sys.path.insert(0, os.path.dirname(os.path.dirname(os.path.abspath(__file__))))
from symex import stubs
ID = "C11"
PATTERNS = ["./net/nts", "./net/ntske"]
HARNESS_FILES = ["net/nts/zz_verif_c11.go", "net/ntske/zz_verif_c11.go"]
N = "example.com/scion-time/net/nts."
INSTALL = [stubs.install_aead]
ENGINE_CFG = {"default_unwind": 14, "aead_bound": 1100, "copy_bound": 160}
HARNESSES = []
for L, th in [(1, False), (2, False), (3, False), (5, True), (8, False)]:
    HARNESSES.append({"name": "request%d" % L, "fn": N + "VerifC11Request%d" % L, "thorough_only": th, "bounds": "pool level %d, cookies as issued by the real server code (124 bytes)" % L})
for L, th in [(1, False), (4, False), (8, False)]:
    HARNESSES.append({"name": "pool%d" % L, "fn": N + "VerifC11Pool%d" % L, "thorough_only": th, "bounds": "pool level %d" % L})
for n, th in [(1, False), (2, False), (7, False), (8, False)]:
    HARNESSES.append({"name": "reply%d" % n, "fn": N + "VerifC11Reply%d" % n, "thorough_only": th, "bounds": "reply with %d fresh cookies" % n})
ASSUMPTIONS = ["ideal AEAD", "the server branch that builds the reply (runIPServer) is represented by the same calls it makes: EncryptWithNonce/Encode per requested cookie, NewResponsePacket, EncodePacket"]
EXPLANATION = ""
CLAIMED = True
LEVEL_TEXT = "Bounded model checking / symbolic execution of the real client and server packet-building code at every explored pool level (1, 2, 3, 8; thorough 5) with cookies produced by the real server-side cookie code (124 bytes): one cookie field = first pooled cookie, 8-L fields typed as placeholders, encoded size vs. MaxPacketLen, pool arithmetic (pop on fetch, append on store, loss-free = 8), reply with n fresh cookies authenticates and is stored."
LEVEL_NOTE = "ideal AEAD; lengths are concrete so most obligations fold during execution (the symbolic part is the key/cookie content); the server branch is represented by the calls it makes, not by runIPServer itself; two known findings (request at pool level 1 and 8-cookie reply exceed MaxPacketLen) are listed in known_findings.txt."
