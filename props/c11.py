import sys, os
sys.path.insert(0, os.path.dirname(os.path.dirname(os.path.abspath(__file__))))
from symex import stubs
ID = "C11"
PATTERNS = ["./net/nts", "./net/ntske"]
HARNESS_FILES = ["net/nts/zz_verif_c11.go", "net/ntske/zz_verif_c11.go"]
N = "example.com/scion-time/net/nts."
INSTALL = [stubs.install_aead]
ENGINE_CFG = {"default_unwind": 14, "aead_bound": 1100, "copy_bound": 160}
HARNESSES = []
for L, th in [(1, False), (2, False), (3, False), (5, True), (8, False)]:
    HARNESSES.append({"name": "request%d" % L, "fn": N + "VerifC11Request%d" % L, "thorough_only": th, "bounds": "pool level %d, cookies as issued by the real server code (124 bytes)" % L})
for L, th in [(1, False), (4, False), (8, False)]:
    HARNESSES.append({"name": "pool%d" % L, "fn": N + "VerifC11Pool%d" % L, "thorough_only": th, "bounds": "pool level %d" % L})
for n, th in [(1, False), (2, False), (7, False), (8, False)]:
    HARNESSES.append({"name": "reply%d" % n, "fn": N + "VerifC11Reply%d" % n, "thorough_only": th, "bounds": "reply with %d fresh cookies" % n})
import importlib.util as _ilu
_sp = _ilu.spec_from_file_location("c09prop_for_c11", os.path.join(os.path.dirname(os.path.abspath(__file__)), "c09.py"))
_c09 = _ilu.module_from_spec(_sp)
_sp.loader.exec_module(_c09)
PATTERNS += ["./core/server"]
HARNESS_FILES += ["core/server/zz_verif_c06.go", "core/server/zz_verif_c09.go", "core/server/zz_verif_c09_metrics.go", "core/server/zz_verif_c11srv.go"]
EXEC_PKGS = _c09.EXEC_PKGS
EXTRA_ENTRIES = _c09.EXTRA_ENTRIES
S = "example.com/scion-time/core/server."
SRVCFG = dict(_c09.LISTENER_CFG, rand_distinct=True, time_mode="ns64", aead_bound=1100, copy_bound=160)
for nph, th in [(0, False), (2, False), ("1R", False)]:
    HARNESSES.append({"name": "server%s" % nph, "fn": S + "VerifC11Server%s" % nph, "cfg": SRVCFG, "install": _c09.LISTENER_INSTALL, "replay_overlay": _c09.RO, "synctest_off": True,
                      "native_feasible": _c09.native_feasible, "thorough_only": th,
                      "bounds": "the real IP listener answering one authenticated request with 1 cookie and %s placeholders (124-byte cookies from the real server code)%s" % (str(nph).rstrip("R"), "; the server key rotates between issue and use of the cookie" if str(nph).endswith("R") else "")})
ASSUMPTIONS = ["independently drawn nonces do not collide (assumed for the pairwise-different clause)", "ideal AEAD", "the server branch that builds the reply (runIPServer) is represented by the same calls it makes: EncryptWithNonce/Encode per requested cookie, NewResponsePacket, EncodePacket"]
EXPLANATION = ""
CLAIMED = True
LEVEL_TEXT = "Bounded model checking / symbolic execution of the real client and server packet-building code at every explored pool level (1, 2, 3, 8; thorough 5) with cookies produced by the real server-side cookie code (124 bytes): one cookie field = first pooled cookie, 8-L fields typed as placeholders, encoded size vs. MaxPacketLen, pool arithmetic (pop on fetch, append on store, loss-free = 8), reply with n fresh cookies authenticates and is stored; the real IP listener (runIPServer) answering one authenticated request built by the real client code: exactly one reply, authenticated for the requester, one fresh cookie per cookie/placeholder, pairwise different, each opening under a currently valid server key to the session keys - also when the server key rotates between issue and use of the cookie."
LEVEL_NOTE = "ideal AEAD; lengths are concrete so most obligations fold during execution (the symbolic part is the key/cookie content); the server side is the real runIPServer against an adversary socket (harnesses server0/server2/server1R, replayed on loopback), one request per run; two known findings (request at pool level 1 and 8-cookie reply exceed MaxPacketLen) are listed in known_findings.txt."
