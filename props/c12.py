ID = "C12"
PATTERNS = ["./net/ntske"]
HARNESS_FILES = ["net/ntske/zz_verif_c12.go"]
P = "example.com/scion-time/net/ntske."
ENGINE_CFG = {"time_mode": "ns64"}
HARNESSES = [
    {"name": "new", "fn": P + "VerifC12NewProvider", "synctest": True, "bounds": "fresh provider"},
    {"name": "overflow", "fn": P + "VerifC12Overflow", "synctest": True, "bounds": "currentID = MaxInt"},
    {"name": "current2", "fn": P + "VerifC12Current2", "synctest": True, "bounds": "current key + <= 2 older keys, any age up to 50 years, any elapsed time up to 50 years"},
    {"name": "get2", "fn": P + "VerifC12Get2", "synctest": True, "bounds": "same; any id"},
    {"name": "twodays2", "fn": P + "VerifC12TwoDays2", "synctest": True, "bounds": "issue, wait <= 48 h, optional rotation, look up"},
    {"name": "current3", "fn": P + "VerifC12Current3", "synctest": True, "bounds": "current key + <= 3 older keys", "thorough_only": True},
    {"name": "get3", "fn": P + "VerifC12Get3", "synctest": True, "bounds": "current key + <= 3 older keys", "thorough_only": True},
    {"name": "twodays3", "fn": P + "VerifC12TwoDays3", "synctest": True, "bounds": "current key + <= 3 older keys", "thorough_only": True},
]
ASSUMPTIONS = ["time.Now() returns the harness-controlled instant (SetNow/AdvanceNow); the wall clock never steps backwards between calls",
               "pre-states restricted to the provider invariant (checked to be re-established by Current and by NewProvider)"]
EXPLANATION = ""
CLAIMED = True
LEVEL_TEXT = "Bounded model checking of one inductive step of the real Provider methods (Current incl. generateNext and its purge loop, Get, NewProvider) from an arbitrary provider state satisfying the stated invariant, at an arbitrary instant and after an arbitrary delay: validity of the current key, the 24 h renewal bound, validity-only lookup, id monotonicity, purge-only-when-expired and the derived 48 h availability are decided by SMT for maps of up to 3 (quick) / 4 (thorough) keys."
LEVEL_NOTE = "time.Now() is the harness-controlled clock (non-decreasing); the map is a bounded association list; rand.Read yields arbitrary bytes; concurrency is covered only through the mutex ghost flag (every access happens with the lock held, Lock/Unlock pair up); more than 4 coexisting keys outside the claim (the real maximum is 4)."
