import sys, os
sys.path.insert(0, os.path.dirname(os.path.dirname(os.path.abspath(__file__))))
from symex import summaries
ID = "C17"
PATTERNS = ["./core/client"]
HARNESS_FILES = ["core/client/zz_verif_c17.go"]
P = "example.com/scion-time/core/client."
ENGINE_CFG = {"time_mode": "ns64"}
NT = {"fp_mul": "opaque", "fp_conv_unchecked": True}
HARNESSES = [{"name": "unconfigured", "fn": P + "VerifC17LuckyUnconfigured", "bounds": "two arbitrary samples"}]
for (n, k, m, thorough) in [(1, 1, 3, False), (2, 1, 4, False), (2, 2, 4, False), (3, 1, 5, True), (3, 2, 5, True), (3, 3, 5, True), (3, 5, 4, False), (4, 2, 6, True), (4, 3, 6, True), (4, 4, 6, True)]:
    HARNESSES.append({"name": "lucky_%d_%d_%d" % (n, k, m), "fn": P + "VerifC17Lucky_%d_%d_%d" % (n, k, m),
                      "bounds": "capacity N=%d, pick k=%d, every history of %d samples with distinct delays (all prefixes checked)" % (n, k, m), "thorough_only": thorough})
HARNESSES += [
    {"name": "luckyreset", "fn": P + "VerifC17LuckyReset", "bounds": "N=3, k=2, 4 samples before and 4 after Reset"},
    {"name": "ntimedresetstate", "fn": P + "VerifC17NtimedResetState", "bounds": "arbitrary internal states, explicit reset and epoch change, one sample", "cfg": NT, "timeout_quick": 200},
    {"name": "ntimedreset", "timeout_quick": 200, "fn": P + "VerifC17NtimedReset", "bounds": "arbitrary internal state, 3 samples after the reset", "cfg": NT},
    {"name": "ntimedrawthird", "fn": P + "VerifC17NtimedRawThird", "bounds": "third sample after a reset from a concrete noise-free two-sample history; every sample", "cfg": NT, "install": [summaries.install_fp_duration_summaries]},
    {"name": "ntimedraw", "fn": P + "VerifC17NtimedRaw", "bounds": "arbitrary internal state with navg in {0,1,2}, one sample", "cfg": NT},
]
ASSUMPTIONS = ["slices.SortFunc by contract", "Ntimed: floating-point products/quotients/sqrt of symbolic operands are uninterpreted functions; float->int conversion range not checked; the numeric closeness of the Ntimed output to the integer offset is NOT decided (DESIGN C17)",
               "Ntimed 'within learned delay bounds' clause: only the fewer-than-four-samples case is decided"]
EXPLANATION = ""
CLAIMED = True
LEVEL_TEXT = "Bounded model checking of the real filter code: the lucky-packet filter is compared, for every history of M samples (all prefixes) with distinct delays, against a reference written by counting (k lowest delays of the last N, median by rank); reset/unconfigured behaviour likewise. For the Ntimed filter the reset/epoch clause and the fewer-than-four-samples clause are decided structurally from an arbitrary internal state with floating-point products kept as uninterpreted functions, plus the third sample after a reset from a concrete noise-free history for every sample."
LEVEL_NOTE = "sort by contract; (N,k,M) up to (3,5,4)/(2,2,4) quick and (4,4,6) thorough; Ntimed: FP mul/div/sqrt uninterpreted, conversion range unchecked, numeric closeness to the integer offset and the 'within learned bounds' clause beyond the first three samples are not decided."
