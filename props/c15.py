import sys, os
sys.path.insert(0, os.path.dirname(os.path.dirname(os.path.abspath(__file__))))
from symex import sched
ID = "C15"
PATTERNS = ["./base/crypto", "./core/client"]
HARNESS_FILES = ["base/crypto/zz_verif_c15.go", "core/client/zz_verif_c15.go", "core/client/zz_verif_c16.go"]
CL = "example.com/scion-time/core/client."
REDIRECT = {
    "github.com/scionproto/scion/pkg/snet.Fingerprint": CL + "c15Fingerprint",
    "(*" + CL + "SCIONClient).measureClockOffsetSCION": CL + "c15Measure",
}
EXTRA_ENTRIES = sorted(set(REDIRECT.values()))


def install_scion(E):
    """multipath round: snet.Fingerprint and the per-path measurement are redirected to harness functions
    (distinct concrete fingerprints per path object; arbitrary measurement results)"""
    from symex.vals import Ptr, Opaque
    for src, dst in REDIRECT.items():
        E.intercepts[src] = (lambda dst: lambda E, name, args, ins: E.call_function(dst, args, (), ins))(dst)
    E.intercepts["(github.com/scionproto/scion/pkg/snet.PathFingerprint).String"] = lambda E, name, args, ins: args[0]
    E.intercept_prefixes.append(("(*sync/atomic.Pointer[", lambda E, name, args, ins: Ptr.to(E.alloc(None, Opaque("metrics"), name="metrics")) if name.endswith(".Load") else None))
    from symex import stubs as _st
    _st.doc("snet.Fingerprint / measureClockOffsetSCION (C15)", install_scion.__doc__)
P = "example.com/scion-time/base/crypto."
INSTALL = [sched.install]
# the rejection loops may reject forever on adversarial bytes: they are cut after 3 draws (termination
# with probability 1 is not a satisfiability statement)
ENGINE_CFG = {"unwind": {P + "randInt31": 3, P + "randInt63": 3}, "unwind_silent": [P + "randInt31", P + "randInt63"]}
HARNESSES = [
    {"name": "randintn31", "fn": P + "VerifC15RandIntn31", "bounds": "every n in [1, 2^31-1], every random byte string, <= 3 draws"},
    {"name": "threshold", "fn": P + "VerifC15Threshold", "bounds": "every n in [1, 2^12]", "timeout_quick": 120},
    {"name": "randintn63", "fn": P + "VerifC15RandIntn63", "bounds": "every n > 2^31-1, <= 3 draws"},
]
for (k, n, th) in [(0, 3, False), (2, 0, False), (2, 2, False), (2, 4, False), (3, 2, False), (3, 5, True), (4, 6, True)]:
    HARNESSES.append({"name": "sample_%d_%d" % (k, n), "fn": P + "VerifC15Sample_%d_%d" % (k, n), "thorough_only": th, "bounds": "k=%d clients, n=%d paths, every random byte string" % (k, n)})
ASSIGN_CFG = {"time_mode": "ns64", "time_sub_unchecked": True, "default_unwind": 8,
              "unwind": {P + "randInt31": 3, P + "randInt63": 3, CL + "collectMeasurements": 5, CL + "collectMeasurements$1": 5},
              "unwind_silent": [P + "randInt31", P + "randInt63"]}
for (c, p_, th) in [(1, 2, False), (2, 0, False), (2, 1, False), (2, 3, False), (3, 4, True)]:
    HARNESSES.append({"name": "assign_%d_%d" % (c, p_), "fn": CL + "VerifC15Assign_%d_%d" % (c, p_), "cfg": ASSIGN_CFG, "install": [install_scion], "thorough_only": th,
                      "bounds": "%d clients, %d offered paths, any subset of clients in interleaved mode with a still-offered or withdrawn previous path, every random byte string, arbitrary measurement results" % (c, p_)})
ASSUMPTIONS = ["crypto/rand.Read delivers arbitrary bytes (every generator output is covered); rejection loops cut after 3 draws",
               "NOT DECIDED: uniformity of the reservoir sample over subsets (a counting/probability statement) - only the per-draw accepted-range lemma and distinctness are decided",
               "path assignment: fingerprints are distinct per path object, the per-path measurement returns arbitrary results; natively the probed paths are observed through the per-path log records and the per-client reset state"]
EXPLANATION = ""
CLAIMED = True
LEVEL_TEXT = "Bounded model checking of the real random-index and reservoir-sampling code with crypto/rand delivering arbitrary bytes (so every generator output is covered): RandIntn stays in [0, n) for every n, the rejection threshold leaves an accepted range that is a multiple of n minus one value (n <= 2^12), Sample returns min(k, n) picks with every destination and source in range and pairwise distinct final slots; and of the real path assignment of MeasureClockOffsetSCION: participating clients probe pairwise distinct offered paths, min(clients, paths) take part, an interleaved client keeps its previous path while offered and is otherwise reset together with its filter, no path gives errNoPath."
LEVEL_NOTE = "NOT decided: uniformity of the sample over subsets (a probability statement; a mutant that draws from the wrong range with every single outcome still legal is not detectable by satisfiability) rejection loops cut after 3 draws; the path-assignment loop of MeasureClockOffsetSCION is checked with up to 2 clients / 3 paths (quick) and 3 / 4 (thorough); that the reported offset is the fault-tolerant midpoint over the participants is checked for a single participant only (C02 covers the midpoint itself)."
