import sys, os
sys.path.insert(0, os.path.dirname(os.path.dirname(os.path.abspath(__file__))))
from symex import sched
ID = "C15"
PATTERNS = ["./base/crypto"]
HARNESS_FILES = ["base/crypto/zz_verif_c15.go"]
P = "example.com/scion-time/base/crypto."
INSTALL = [sched.install]
# the rejection loops may reject forever on adversarial bytes: they are cut after 3 draws (termination
# with probability 1 is not a satisfiability statement)
ENGINE_CFG = {"unwind": {P + "randInt31": 3, P + "randInt63": 3}, "unwind_silent": [P + "randInt31", P + "randInt63"]}
HARNESSES = [
    {"name": "randintn31", "fn": P + "VerifC15RandIntn31", "bounds": "every n in [1, 2^31-1], every random byte string, <= 3 draws"},
    {"name": "threshold", "fn": P + "VerifC15Threshold", "bounds": "every n in [1, 2^12]", "timeout_quick": 120},
    {"name": "randintn63", "fn": P + "VerifC15RandIntn63", "bounds": "every n > 2^31-1, <= 3 draws"},
]
for (k, n, th) in [(0, 3, False), (2, 0, False), (2, 2, False), (2, 4, False), (3, 2, False), (3, 5, True), (4, 6, True)]:
    HARNESSES.append({"name": "sample_%d_%d" % (k, n), "fn": P + "VerifC15Sample_%d_%d" % (k, n), "thorough_only": th, "bounds": "k=%d clients, n=%d paths, every random byte string" % (k, n)})
ASSUMPTIONS = ["crypto/rand.Read delivers arbitrary bytes (every generator output is covered); rejection loops cut after 3 draws",
               "NOT DECIDED: uniformity of the reservoir sample over subsets (a counting/probability statement) - only the per-draw accepted-range lemma and distinctness are decided",
               "NOT COVERED: the path-assignment loop of client.MeasureClockOffsetSCION (sticky interleaved paths, filter reset, errNoPath, FTM over the participants)"]
EXPLANATION = ""
CLAIMED = True
LEVEL_TEXT = "Bounded model checking of the real random-index and reservoir-sampling code with crypto/rand delivering arbitrary bytes (so every generator output is covered): RandIntn stays in [0, n) for every n, the rejection threshold leaves an accepted range that is a multiple of n minus one value (n <= 2^12), Sample returns min(k, n) picks with every destination and source in range and pairwise distinct final slots."
LEVEL_NOTE = "NOT decided: uniformity of the sample over subsets (a probability statement; a mutant that draws from the wrong range with every single outcome still legal is not detectable by satisfiability) and the path-assignment loop of MeasureClockOffsetSCION (sticky interleaved paths, filter reset, errNoPath, FTM over participants) - not built; rejection loops cut after 3 draws."
