import sys, os
sys.path.insert(0, os.path.dirname(os.path.dirname(os.path.abspath(__file__))))
from symex import summaries
ID = "C19"
PATTERNS = ["./core/sync/adjustments"]
HARNESS_FILES = ["core/sync/adjustments/zz_verif_c19.go"]
P = "example.com/scion-time/core/sync/adjustments."
ENGINE_CFG = {"time_mode": "ns64", "fp_mul": "exact_const"}
INSTALL = [summaries.install_fp_duration_summaries]
HARNESSES = [
    {"name": "mode0", "fn": P + "VerifC19Mode0", "bounds": "one step from any state in start-up stage 0"},
    {"name": "mode1", "fn": P + "VerifC19Mode1", "bounds": "one step from any state awaiting the initial step; any offset (all int64), any weight"},
    {"name": "mode2", "fn": P + "VerifC19Mode2", "bounds": "one step from any state awaiting the PLL"},
    {"name": "mode3", "fn": P + "VerifC19Mode3", "bounds": "one step from any tracking state (gains within their ranges, finite integrator); instants < 2^61 ns; float arithmetic by sound facts only"},
    {"name": "restart", "fn": P + "VerifC19Restart", "bounds": "one step from any state after a clock epoch change"},
    {"name": "fresh", "fn": P + "VerifC19Fresh", "bounds": "first call after NewPLL"},
]
ASSUMPTIONS = ["floating-point products of two symbolic operands and math.Pow are uninterpreted functions constrained only by sound IEEE-754 facts (finite for moderate operands, sign, |x*y| <= |x| for |y| <= 1, pow of a base in [0,1] stays in [0,1]); products/quotients with a constant are exact",
               "clock epoch and reading are constant during one Do call"]
EXPLANATION = ""
CLAIMED = True
LEVEL_TEXT = "Bounded model checking of one inductive step of the real Pll.Do from an arbitrary state satisfying the invariant (mode <= 3, gains in range, finite integrator), per start-up stage and for the epoch-change case, with arbitrary offset (all int64), weight and clock reading: when and by how much Step is called, that tracking never steps, that Adjust gets a positive duration equal to the elapsed whole seconds, a slew within +-500 ppm of it and a finite frequency, and that an epoch change restarts start-up are decided by SMT."
LEVEL_NOTE = "floating point: products/quotients with constants exact, symbolic products and math.Pow uninterpreted with sound IEEE facts, timemath.Duration and Duration.Seconds summarised as monotone sign-preserving functions (the slew bound is stated through that conversion; the integer-nanosecond form with exact IEEE arithmetic was tried and is undecided in 600 s); clock non-decreasing within an epoch; NaN weights are covered in the start-up modes only (a NaN weight is not above 3), the gain / integrator / frequency clauses are claimed for weights that are numbers; logging ignored."
