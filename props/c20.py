import sys, os
sys.path.insert(0, os.path.dirname(os.path.dirname(os.path.abspath(__file__))))
from symex import stubs, sched
ID = "C20"
PATTERNS = ["./net/ntske"]
HARNESS_FILES = ["net/ntske/zz_verif_c20.go", "net/ntske/zz_verif_c20f.go"]
K = "example.com/scion-time/net/ntske."
INSTALL = [sched.install, stubs.install_stream]
ENGINE_CFG = {"default_unwind": 8, "copy_bound": 24}
REDIRECT = {
    "crypto/tls.DialWithDialer": K + "c20Dial",
    "(*crypto/tls.Conn).ConnectionState": K + "c20State",
    "(*crypto/tls.Conn).Write": K + "c20Write",
    "(*crypto/tls.Conn).Close": K + "c20Close",
    "(*crypto/tls.ConnectionState).ExportKeyingMaterial": K + "c20Export",
}
EXTRA_ENTRIES = sorted(set(REDIRECT.values())) + [K + "c20RemoteAddrString"]


def install_tls(E):
    """TLS / net glue for the key-exchange client: dialing, the connection state, writing and the key
    exporter are redirected to harness functions (arbitrary peers); the byte stream read from the
    connection is the current peer's scripted stream; host:port helpers are evaluated on concrete strings."""
    import z3
    from symex.vals import Ptr, Iface, SV, Str, TRUE
    I = E.intercepts
    for src, dst in REDIRECT.items():
        I[src] = (lambda dst: lambda E, name, args, ins: E.call_function(dst, args, (), ins))(dst)
    new_reader = I["bufio.NewReader"]

    def new_reader2(E, name, args, ins):
        r = args[0]
        if any(a[1] is not None and "tls.Conn" in a[1] for a in r.alts):
            cur = E.load(E.global_ptr(K + "c20", E.prog.globals[K + "c20"]))
            fields = [f["name"] for f in E.prog.type(E.prog.globals[K + "c20"]).elem().under().d["fields"]]
            rd = cur.f[fields.index("cur")]
            r = Iface(((TRUE, "*" + K + "c20reader", rd),))
        return new_reader(E, name, [r], ins)
    I["bufio.NewReader"] = new_reader2

    # the client's own request bytes do not matter for what it accepts: not encoded
    def msg_pack(E, name, args, ins):
        from symex.vals import Opaque
        return (Ptr.to(E.alloc(None, Opaque("bytes.Buffer"), name="request buffer")), Iface.nil())
    I["(" + K + "ExchangeMsg).Pack"] = msg_pack
    from symex.vals import Slice
    I["(*bytes.Buffer).Bytes"] = lambda E, name, args, ins: Slice.nil()

    def remote_addr(E, name, args, ins):
        return Iface(((TRUE, "$tcpaddr", None),))
    I["(*crypto/tls.Conn).RemoteAddr"] = remote_addr
    I["$invoke:$tcpaddr.*"] = lambda E, payload, method, args, ins: E.call_function(K + "c20RemoteAddrString", [], (), ins)

    def split_host_port(E, name, args, ins):
        s = args[0]
        if s.py is None:
            raise Exception("net.SplitHostPort on a symbolic string")
        i = s.py.rfind(":")
        if i < 0:
            return (E.str_const(""), E.str_const(""), E.err_token())
        return (E.str_const(s.py[:i].strip("[]")), E.str_const(s.py[i + 1:]), Iface.nil())
    I["net.SplitHostPort"] = split_host_port

    def join_host_port(E, name, args, ins):
        a, b = args
        if a.py is None or b.py is None:
            raise Exception("net.JoinHostPort on symbolic strings %r %r guard=%s" % (a, b, str(E.guard)[:200]))
        return E.str_const(("[%s]:%s" if ":" in a.py else "%s:%s") % (a.py, b.py))
    I["net.JoinHostPort"] = join_host_port
    stubs.doc("crypto/tls, net host:port helpers (C20)", install_tls.__doc__)


def fetch_native_feasible(E):
    cs = []
    for nm, inp in E.inputs.items():
        base = nm.split("@")[0]
        if base in ("peer.writefails", "peer.exportfails"):
            import z3
            cs.append(z3.Not(inp["term"]))
    return cs


HARNESSES = [
    {"name": "fetch16", "fn": K + "VerifC20Fetch16", "install": [install_tls], "native_feasible": fetch_native_feasible, "replay_timeout": 60,
     "cfg": {"default_unwind": 8, "copy_bound": 40, "str_bound": 16},
     "bounds": "two consecutive key exchanges of one client against arbitrary peers: dial failure, ALPN mismatch, write/export failure, every byte stream of 0..16 bytes (<= 4 records) in every segmentation"},
    {"name": "readdata12", "fn": K + "VerifC20ReadData12", "bounds": "every byte stream of 0..12 bytes (<= 3 records), every segmentation into reads"},
    {"name": "readdata16", "fn": K + "VerifC20ReadData16", "bounds": "every byte stream of 0..16 bytes (<= 4 records), every segmentation", "thorough_only": True},
    {"name": "readdata24", "fn": K + "VerifC20ReadData24", "bounds": "every byte stream of 0..24 bytes (<= 6 records), every segmentation", "thorough_only": True, "cfg": {"str_bound": 24, "copy_bound": 32}},
]
ASSUMPTIONS = ["stream model: bufio.Reader.Read = one underlying read of arbitrary size; binary.Read / io.ReadFull by contract (exactly n bytes or EOF / ErrUnexpectedEOF)"]
EXPLANATION = ""
CLAIMED = True
LEVEL_TEXT = "Bounded model checking of the real NTS-KE record reader ReadData against a reference parser written by cases in the harness, for every byte stream up to the tier bound and every segmentation of it into reads (position-indexed symbolic chunk sizes), and of the key-exchange client over two consecutive exchanges with arbitrary peers (success only for ntske/1 + AES-SIV-CMAC-256 + >= 1 cookie + properly terminated stream; pool = cookies issued; RFC 8915 exporter label and contexts; defaults for server and port; a failed exchange leaves nothing behind): success exactly for properly terminated streams without error record or unrecognised critical record, non-critical unknown records ignored, cookies exactly the cookie records in order, algorithm / port / server from their records."
LEVEL_NOTE = "streams of <= 12 (quick) / 24 bytes (<= 3 / 6 records); stream model: bufio.Reader.Read = one underlying read of arbitrary size, binary.Read / io.ReadFull by contract; the key-exchange client (Fetcher.FetchData / exchangeKeys / dialTLS / ExportKeys) runs against scripted peers through redirected TLS functions and is replayed against a real TLS 1.3 server on loopback; NOT built: the QUIC/SCION transport, the NTS-KE server message, the address selection for the following NTP request."
