import sys, os
sys.path.insert(0, os.path.dirname(os.path.dirname(os.path.abspath(__file__))))
from symex import stubs, sched
ID = "C20"
PATTERNS = ["./net/ntske"]
HARNESS_FILES = ["net/ntske/zz_verif_c20.go"]
K = "example.com/scion-time/net/ntske."
INSTALL = [sched.install, stubs.install_stream]
ENGINE_CFG = {"default_unwind": 8, "copy_bound": 24}
HARNESSES = [
    {"name": "readdata12", "fn": K + "VerifC20ReadData12", "bounds": "every byte stream of 0..12 bytes (<= 3 records), every segmentation into reads"},
    {"name": "readdata16", "fn": K + "VerifC20ReadData16", "bounds": "every byte stream of 0..16 bytes (<= 4 records), every segmentation", "thorough_only": True},
    {"name": "readdata24", "fn": K + "VerifC20ReadData24", "bounds": "every byte stream of 0..24 bytes (<= 6 records), every segmentation", "thorough_only": True},
]
ASSUMPTIONS = ["stream model: bufio.Reader.Read = one underlying read of arbitrary size; binary.Read / io.ReadFull by contract (exactly n bytes or EOF / ErrUnexpectedEOF)"]
EXPLANATION = ""
CLAIMED = True
LEVEL_TEXT = "Bounded model checking of the real NTS-KE record reader ReadData against a reference parser written by cases in the harness, for every byte stream up to the tier bound and every segmentation of it into reads (position-indexed symbolic chunk sizes): success exactly for properly terminated streams without error record or unrecognised critical record, non-critical unknown records ignored, cookies exactly the cookie records in order, algorithm / port / server from their records."
LEVEL_NOTE = "streams of <= 12 (quick) / 24 bytes (<= 3 / 6 records); stream model: bufio.Reader.Read = one underlying read of arbitrary size, binary.Read / io.ReadFull by contract; NOT built: Fetcher.exchangeKeys / FetchData (ALPN, algorithm and cookie checks, exporter arguments, failure-leaves-no-state - hand-confirmed finding F7 stays open), the NTS-KE server message, address selection for the following NTP request."
