import sys, os
sys.path.insert(0, os.path.dirname(os.path.dirname(os.path.abspath(__file__))))
from symex import stubs, sched
ID = "C20"
PATTERNS = ["./net/ntske"]
HARNESS_FILES = ["net/ntske/zz_verif_c20.go"]
K = "example.com/scion-time/net/ntske."
INSTALL = [sched.install, stubs.install_stream]
ENGINE_CFG = {"default_unwind": 8, "copy_bound": 24}
HARNESSES = [
    {"name": "readdata12", "fn": K + "VerifC20ReadData12", "bounds": "every byte stream of 0..12 bytes (<= 3 records), every segmentation into reads"},
    {"name": "readdata16", "fn": K + "VerifC20ReadData16", "bounds": "every byte stream of 0..16 bytes (<= 4 records), every segmentation", "thorough_only": True},
    {"name": "readdata24", "fn": K + "VerifC20ReadData24", "bounds": "every byte stream of 0..24 bytes (<= 6 records), every segmentation", "thorough_only": True},
]
ASSUMPTIONS = ["stream model: bufio.Reader.Read = one underlying read of arbitrary size; binary.Read / io.ReadFull by contract (exactly n bytes or EOF / ErrUnexpectedEOF)"]
EXPLANATION = ""
