import sys, os
sys.path.insert(0, os.path.dirname(os.path.dirname(os.path.abspath(__file__))))
import z3
from symex import sched
from symex.vals import *
ID = "C01"
PATTERNS = ["./core/sync"]
HARNESS_FILES = ["core/sync/zz_verif_c01.go"]
P = "example.com/scion-time/core/sync."
MCO = "(*example.com/scion-time/core/client.ReferenceClockClient).MeasureClockOffsets"


def install_mco(E):
    """(*ReferenceClockClient).MeasureClockOffsets by contract (the real function is checked by C16):
    every clock's MeasureClockOffset is called once; the error-free results that arrive in time (which
    ones do is arbitrary unless all_arrive) are stored at the front of ms, the rest of ms is left as it
    was (stale values included).  Stored in clock order: the consumer (fault-tolerant midpoint) is
    order-independent (C02)."""
    def mco(E, name, args, ins):
        recv, ctx, clks, ms = args
        n = E.conc(clks.len)
        if n is None:
            raise Exception("symbolic number of clocks")
        E.oblige("panic", ms.len == clks.len, oid="mco-length-mismatch")
        j = bv(0)
        for i in range(n):
            clk = E.slice_get(clks, bv(i))
            ts, off, err = E.invoke(clk, "MeasureClockOffset", [ctx], ins)
            okc = err.is_nil_cond()
            if not E.cfg.get("all_arrive"):
                okc = And(okc, E.new_input("sched.arrived", "bool", z3.BoolSort()))
            g0 = E.guard
            E.guard = And(g0, okc)
            if not is_false(E.guard):
                E.slice_set(ms, j, SV([ts, off, Iface.nil()]))
            E.guard = g0
            j = z3.simplify(zif(okc, j + 1, j))
        return None
    E.intercepts[MCO] = mco
    from symex import stubs
    stubs.doc("ReferenceClockClient.MeasureClockOffsets (summary)", install_mco.__doc__)


def native_feasible(E):
    """natively the real MeasureClockOffsets runs with a real deadline: give the clocks time to answer"""
    cs = []
    for nm, inp in E.inputs.items():
        base = nm.split("@")[0]
        if base == "cfg.timeout":
            cs.append(inp["term"] >= 1000000000)
        elif base == "sched.arrived":
            cs.append(inp["term"])
    return cs


ENGINE_CFG = {"time_mode": "ns64", "fp_mul": "exact_const", "time_sub_unchecked": True, "fp_int_abstract": True}
INSTALL = [sched.install, install_mco]
HARNESSES = [
    {"name": "lemmas", "fn": P + "VerifC01ConversionLemmas", "bounds": "every int64 pair, every float64 in (-2^63, 2^63): exact IEEE-754", "cfg": {"fp_int_abstract": False, "fp_mul": "exact"}, "install": []},
    {"name": "admissibility", "fn": P + "VerifC01Admissibility", "bounds": "every configuration (non-NaN factors) violating a start-up condition; any drift"},
]
for (a, b, r, th, sfx) in [(0, 0, 2, False, ""), (1, 0, 2, False, ""), (0, 1, 2, False, ""), (1, 1, 1, True, ""), (1, 1, 2, True, "x2"), (3, 0, 2, True, "")]:
    HARNESSES.append({"name": "round_%d_%d%s" % (a, b, sfx), "fn": P + "VerifC01Round_%d_%d%s" % (a, b, sfx), "thorough_only": th,
                      "timeout_quick": 240, "timeout_thorough": 900,
                      "bounds": "%d reference clocks, %d peers, %d rounds, arbitrary offsets/failures/late results" % (a, b, r)})
for h in HARNESSES:
    h.setdefault("timeout_quick", 240)
    if h["name"] not in ("lemmas",):
        h["native_feasible"] = native_feasible
    if h["name"] == "round_0_1":
        h["cfg"] = {"all_arrive": True}
ASSUMPTIONS = ["int64 <-> float64 conversions are uninterpreted functions constrained by monotonicity / sign / truncation facts; these facts are discharged with exact IEEE-754 semantics by the harness lemmas", "the impact x drift products are uninterpreted (shared between the code and the specification by congruence)",
               "NaN impact factors are excluded by assumption: they pass every start-up check and disable the clamp (observation recorded in DESIGN section 8; NaN is neither an admissible nor a listed-as-refused setting)",
               "the service loop is cut after 2 (3) rounds by the harness clock's Sleep"]
EXPLANATION = ""
CLAIMED = True
LEVEL_TEXT = "Bounded model checking of the real sync.Run: (a) every configuration that violates one of the listed start-up conditions is refused before any correction is handed over; (b) for admissible configurations (impact factors up to 1e6) each explored round hands exactly one correction to the discipline, within the reference / peer bound, a peer value within the cutoff contributes nothing and both together give the midpoint (quick: reference-only and peers-only rounds with one clock incl. the cutoff clause; thorough: one clock per side with the combined bound in the first round, and three reference clocks alone; arbitrary offsets incl. MinInt64, failures and late results)."
LEVEL_NOTE = "tried and NOT registered because every back end left the combined-bound obligation undecided (600-900 s): the exact midpoint form (exact), the combined bound in rounds after the first, both sides with 2+2 / 3+2 / 4+3 clocks, and two clocks on one side alone (2+0, 0+2); MeasureClockOffsets replaced by its contract (checked by C16); the two measurement goroutines run at their spawn point (they touch disjoint slices); impact x drift is an uninterpreted product shared by code and specification, constrained by sound IEEE facts; NaN factors excluded (they are neither refused nor bounded - recorded observation); 1-3 rounds explored; what the discipline does with the correction is C19."
