import sys, os
sys.path.insert(0, os.path.dirname(os.path.dirname(os.path.abspath(__file__))))
from symex import sched
ID = "C16"
PATTERNS = ["./core/client"]
HARNESS_FILES = ["core/client/zz_verif_c16.go"]
P = "example.com/scion-time/core/client."
ENGINE_CFG = {"time_mode": "ns64"}
INSTALL = [sched.install]
HARNESSES = [{"name": "reentry", "fn": P + "VerifC16Reentry", "bounds": "2 clocks"}]
for n in range(1, 7):
    HARNESSES.append({"name": "collect%d" % n, "fn": P + "VerifC16Collect%d" % n, "bounds": "%d clocks, every success/failure pattern, every arrival order, deadline firing at any point" % n, "thorough_only": n > 4, "synctest": True, "native_feasible": sched.native_feasible, "unwind_is_violation": True, "replay_timeout": 20, "cfg": {"unwind": {P + "collectMeasurements": n + 1, P + "collectMeasurements$1": n + 1}}})
HARNESSES.append({"name": "count3", "fn": P + "VerifC16Count3", "bounds": "3 senders", "synctest": True, "native_feasible": sched.native_feasible, "unwind_is_violation": True, "replay_timeout": 20, "cfg": {"unwind": {P + "collectMeasurements": 4, P + "collectMeasurements$1": 4}}})
HARNESSES.append({"name": "count5", "fn": P + "VerifC16Count5", "bounds": "5 senders", "thorough_only": True, "synctest": True, "native_feasible": sched.native_feasible, "unwind_is_violation": True, "replay_timeout": 20, "cfg": {"unwind": {P + "collectMeasurements": 6, P + "collectMeasurements$1": 6}}})
ASSUMPTIONS = ["scheduler model (symex/sched.py): goroutine bodies run at the spawn point up to completion, their sends are pending until received in an arbitrary order; a select takes any ready case; the context may fire at any select; a select at which nothing is ever ready (no deadline and a clock that never answers) is outside the model",
               "wall-clock lateness of the Go scheduler and the runtime itself are outside the claim"]
EXPLANATION = ""
CLAIMED = True
LEVEL_TEXT = "Bounded model checking of the real collectMeasurements / MeasureClockOffsets (incl. the drain goroutine and the deferred counter release) under a scheduler model in which the arrival order of the senders, which of them succeed, and the select at which the deadline fires are all symbolic: results stored exactly once at the front, nothing else written, all successes collected when the deadline does not fire, every send received (no goroutine left blocked), no wait after the deadline case was taken and no iteration beyond the unwinding bound (the round ends by its deadline), the in-progress counter released, a second collection / length mismatch refused."
LEVEL_NOTE = "n <= 4 (quick) / 6 clocks; scheduler model as stated in symex/sched.py (goroutine bodies run at their spawn point, sends pending until received in arbitrary order, select takes any ready case); a select at which nothing ever becomes ready is outside the model; a counterexample's schedule (event at which each result is received, event at which the deadline fires) is replayed natively in a testing/synctest bubble as completion times and a context deadline: a hang reproduces as a test time-out, a goroutine left behind as synctest's deadlock panic, a late return as a failed deadline assertion on the virtual clock."
