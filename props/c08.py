import sys, os
sys.path.insert(0, os.path.dirname(os.path.dirname(os.path.abspath(__file__))))
from symex import stubs
ID = "C08"
PATTERNS = ["./net/ntske", "./net/nts", "./net/ntp", "./net/csptp"]
HARNESS_FILES = ["net/ntske/zz_verif_c08.go", "net/nts/zz_verif_c08.go", "net/ntske/zz_verif_c20.go", "net/ntske/zz_verif_c20f.go"]
SKIP_ASSERT_PREFIXES = ["C20.", "C14."]   # the NTS-KE stream harness is shared with C20: here only its panic / unwinding obligations count
N = "example.com/scion-time/net/nts."
K = "example.com/scion-time/net/ntske."
INSTALL = [stubs.install_aead]
ENGINE_CFG = {"default_unwind": 14}
HARNESSES = [
    {"name": "encryptedcookie16", "fn": K + "VerifC08EncryptedCookieDecode16", "bounds": "every byte string of 0..16 bytes"},
    {"name": "servercookie16", "fn": K + "VerifC08ServerCookieDecode16", "bounds": "every byte string of 0..16 bytes"},
    {"name": "cookiedecrypt", "fn": K + "VerifC08CookieDecrypt", "bounds": "every byte string of 0..48 bytes, ideal AEAD", "cfg": {"aead_bound": 48}, "inproc_ms": 30000},
    {"name": "ntsdecode32", "fn": N + "VerifC08NTSDecode32", "bounds": "every datagram of 48..80 bytes; extension walk unwound 14x with unwinding obligation", "unwind_is_violation": True, "replay_timeout": 20},
    {"name": "ntsprocess40", "fn": N + "VerifC08NTSProcess40", "bounds": "every datagram of 48..88 bytes, arbitrary 32-byte key, ideal AEAD", "unwind_is_violation": True, "replay_timeout": 20, "cfg": {"aead_bound": 88}},
    {"name": "authwalk28", "fn": N + "VerifC08AuthWalk28", "bounds": "every 28-byte plaintext sealed by the real encoder", "unwind_is_violation": True, "replay_timeout": 20},
    {"name": "authwalk36", "fn": N + "VerifC08AuthWalk36", "bounds": "every 36-byte plaintext sealed by the real encoder", "unwind_is_violation": True, "replay_timeout": 20},
    {"name": "replyencode8", "fn": N + "VerifC08ReplyEncode8", "bounds": "reply with 8 arbitrary 124-byte cookies (1148 bytes > MaxPacketLen), arbitrary key and unique id, ideal AEAD", "cfg": {"aead_bound": 1200, "copy_bound": 160}},
    {"name": "replyencode7", "fn": N + "VerifC08ReplyEncode7", "bounds": "reply with 7 arbitrary 124-byte cookies (1020 bytes)", "cfg": {"aead_bound": 1200, "copy_bound": 160}},
    {"name": "replyencode9", "fn": N + "VerifC08ReplyEncode9", "bounds": "reply with 9 arbitrary 124-byte cookies", "cfg": {"aead_bound": 1200, "copy_bound": 160}},
    {"name": "kestream12", "fn": K + "VerifC20ReadData12", "install": [stubs.install_stream], "cfg": {"default_unwind": 8, "copy_bound": 24},
     "bounds": "ntske.ReadData on every NTS-KE record stream of 0..12 bytes (<= 3 records) in every segmentation into reads: no panic, loops within their unwinding bounds"},
    {"name": "authwalk60", "fn": N + "VerifC08AuthWalk60", "bounds": "every 60-byte plaintext sealed by the real encoder", "unwind_is_violation": True, "replay_timeout": 20, "thorough_only": True},
    {"name": "encryptedcookie40", "fn": K + "VerifC08EncryptedCookieDecode40", "bounds": "every byte string of 0..40 bytes", "thorough_only": True},
    {"name": "servercookie40", "fn": K + "VerifC08ServerCookieDecode40", "bounds": "every byte string of 0..40 bytes", "thorough_only": True},
]
ASSUMPTIONS = []
EXPLANATION = ""
CLAIMED = True
LEVEL_TEXT = "Bounded model checking of the real decoders on fully symbolic buffers of every length up to the tier bound: ntske cookie decoders and Decrypt, ntske.ReadData (record streams <= 12 bytes), nts.DecodePacket, ProcessRequest/authenticate (incl. the walk over decrypted fields sealed by the real encoder), and the encoder building the listener's reply for as many cookies as the requester asked for (7, 8 and 9 cookies; 8 and 9 are beyond MaxPacketLen). The obligations are the engine's built-in ones: no reachable panic (index, slice bounds, nil, explicit panic, AEAD nonce-length panic) and every loop terminates within its unwinding bound (an unwinding obligation that is satisfiable IS the hang and is replayed natively under a time limit)."
LEVEL_NOTE = "buffers: cookies <= 16 (quick) / 40 bytes, NTS datagrams <= 80/88 (quick) bytes, plaintext walks 28/36/60 bytes; ideal AEAD; the IP listener loop is exercised by C09's and C11's listener harnesses (datagrams <= 56 bytes and one authenticated request); NOT covered: runSCIONServer, CSPTP listener/client, NTS-KE server, SCION forwarder, udp.TimestampFromOOBData, scion auth option parsing, gopacket/slayers/quic-go internals."
