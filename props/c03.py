import sys, os
sys.path.insert(0, os.path.dirname(os.path.dirname(os.path.abspath(__file__))))
import z3
from symex import sched, summaries, stubs
from symex.vals import *
ID = "C03"
PATTERNS = ["./core/client"]
HARNESS_FILES = ["core/client/zz_verif_c03.go", "core/client/zz_verif_c03_clock.go"]
P = "example.com/scion-time/core/client."
EXEC_PKGS = ["net", "net/netip", "internal/byteorder"]
REDIRECT = {
    "(*net.ListenConfig).ListenPacket": P + "c03ListenPacket",
    "(*net.UDPConn).Close": P + "c03Close",
    "(*net.UDPConn).SetDeadline": P + "c03SetDeadline",
    "(*net.UDPConn).WriteToUDPAddrPort": P + "c03Write",
    "(*net.UDPConn).ReadMsgUDPAddrPort": P + "c03Read",
    "example.com/scion-time/net/udp.EnableTimestamping": P + "c03EnableTimestamping",
    "example.com/scion-time/net/udp.SetDSCP": P + "c03SetDSCP",
    "example.com/scion-time/net/udp.TimestampLen": P + "c03TimestampLen",
    "example.com/scion-time/net/udp.ReadTXTimestamp": P + "c03ReadTXTimestamp",
    "example.com/scion-time/net/udp.TimestampFromOOBData": P + "c03TimestampFromOOB",
}
EXTRA_ENTRIES = sorted(set(REDIRECT.values()))


def install_net(E):
    """net / netip glue: socket and kernel functions are redirected to the harness's adversary functions
    (arbitrary answers); netip address arithmetic is executed from its real code; String() results are
    uninterpreted functions of the address content."""
    I = E.intercepts
    for src, dst in REDIRECT.items():
        I[src] = (lambda dst: lambda E, name, args, ins: E.call_function(dst, args, (), ins))(dst)
    sf = z3.Function("udpaddr_str", StrSort, BV64, StrSort)

    def udpaddr_string(E, name, args, ins):
        a = E.load(args[0])      # net.UDPAddr{IP, Port, Zone}
        ip = E.bytes_to_string(a.f[0])
        t = sf(ip.term, a.f[1])
        return Str(None, t, E.strlen(t))
    I["(*net.UDPAddr).String"] = udpaddr_string
    apf = z3.Function("addrport_str", BV64, BV64, z3.BitVecSort(16), StrSort)

    def addrport_string(E, name, args, ins):
        ap = args[0]             # netip.AddrPort{ip Addr{addr uint128{hi,lo}, z}, port}
        ip = ap.f[0]
        t = apf(ip.f[0].f[0], ip.f[0].f[1], ap.f[1])
        return Str(None, t, E.strlen(t))
    I["(net/netip.AddrPort).String"] = addrport_string

    def handle_value(E, name, args, ins):
        fn = E.prog.func(name)
        return E.zero(E.prog.type(fn.results[0]))
    E.intercept_prefixes.append(("(unique.Handle[", handle_value))

    def parse_ip(E, name, args, ins):
        raise Exception("net.ParseIP (NTS path) not modelled")
    I["net.ParseIP"] = parse_ip
    stubs.doc("net / netip (C03)", install_net.__doc__)


def native_feasible(E):
    """side conditions under which the datagrams of a counterexample can be sent through loopback sockets"""
    cs = []
    for nm, inp in E.inputs.items():
        base = nm.split("@")[0]
        t = inp["term"]
        k = int(nm.split("@")[1]) if "@" in nm else 0
        if base in ("dg.readerr", "write.fails", "listen.fails"):
            cs.append(z3.Not(t))
        elif base == "dg.flags":
            cs.append(t == 0)
        elif base in ("dg.src.ip", "remote.ip"):
            if k % 4 == 0:
                cs.append(t == 127)
            elif k % 4 == 3:
                cs.append(z3.And(z3.UGE(t, 2), z3.ULE(t, 250)))
        elif base == "remote.port":
            cs.append(z3.And(z3.UGE(t, 20000), z3.ULE(t, 60000)))
    return cs


NETIP_GLOBALS = ["net/netip.z0", "net/netip.z4", "net/netip.z6noz"]
ENGINE_CFG = {"time_mode": "ns64", "time_sub_unchecked": True, "opaque_globals": NETIP_GLOBALS + [P + "ipMetrics"], "str_bound": 16, "default_unwind": 6,
              "unwind": {P + "(*IPClient).measureClockOffsetIP": 3}}
INSTALL = [sched.install, install_net, summaries.install_time64_summary, summaries.install_timefrom64_summary]
HARNESSES = [
    {"name": "formula", "fn": P + "VerifC03Formula", "cfg": {"time_mode": "ns64"}, "install": [], "bounds": "instants, offsets and delays below 2^58 ns"},
    {"name": "exchange_basic", "fn": P + "VerifC03ExchangeBasic", "native_feasible": native_feasible, "bounds": "one exchange of a client without interleaved mode; up to 3 arbitrary datagrams of 0..48 bytes from arbitrary sources, arbitrary kernel stamps / clock readings / I/O failures"},
    {"name": "exchange_interleaved", "fn": P + "VerifC03ExchangeInterleaved", "native_feasible": native_feasible, "bounds": "one exchange from an arbitrary previous-exchange state in interleaved mode; same adversary"},
]
ASSUMPTIONS = ["sockets, kernel timestamps and the clock are adversarial functions written in the harness (arbitrary datagrams, sources, flags, errors, stamps)",
               "NTS disabled (C10/C11 cover the NTS processing); IPv4 addresses; instants inside NTP era 0; SCION client not covered",
               "Time64FromTime summary (see C06); native replay uses real loopback sockets: for C05 obligations a scripted peer sends the counterexample's datagrams (echoed stamps renamed to the real request's) and success must be based on an acceptable one; for C03 obligations a conformant server whose clock is 2.5 s ahead answers four exchanges and the reported offset must be within 20 ms of 2.5 s"]
EXPLANATION = ""
CLAIMED = True
LEVEL_TEXT = "Bounded model checking of the real IP client exchange (measureClockOffsetIP) against an adversarial socket, kernel and clock written in the harness: up to 3 arbitrary datagrams from arbitrary sources, arbitrary I/O failures, stamps and an arbitrary previous-exchange state (inductive step for interleaved mode): on success the offset is the NTP formula over four stamps that belong to one exchange (basic: this one; interleaved: the previous one with this response's transmit stamp), the state records this exchange; plus the NTP formulas against ground truth (offset within half the round-trip delay of the true offset for arbitrary path delays)."
LEVEL_NOTE = "IP client only (SCION client not built), NTS disabled, IPv4, instants inside NTP era 0, conversions by the C04 summaries; the clock and stamps of one exchange come from one non-decreasing source (a kernel stamp behind the clock makes the real code panic: recorded observation); native replay as described in the assumptions."
