ID = "C13"
CLAIMED = False
NA_REASON = ("not built: the SCION listener and client bodies (runSCIONServer, measureClockOffsetSCION) are inseparable from gopacket/slayers layer objects, "
             "path reversal, DRKey fetching and CMAC computation, which the SSA->SMT encoder would have to replace by ~25 hand-written models of third-party code; "
             "with those models the check would decide the models rather than the code. The pure option codec in net/scion/auth.go has no property of its own; "
             "hand-confirmed finding F8 (SCION packets with an 8-byte host address or an authenticator option of the wrong length panic the listener) stays open in DESIGN.md section 8")
