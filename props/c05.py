import sys, os, importlib.util
_spec = importlib.util.spec_from_file_location("c03prop_for_c05", os.path.join(os.path.dirname(os.path.abspath(__file__)), "c03.py"))
_c03 = importlib.util.module_from_spec(_spec)
_spec.loader.exec_module(_c03)
ID = "C05"
PATTERNS = _c03.PATTERNS
HARNESS_FILES = _c03.HARNESS_FILES
EXEC_PKGS = _c03.EXEC_PKGS
EXTRA_ENTRIES = _c03.EXTRA_ENTRIES
ENGINE_CFG = _c03.ENGINE_CFG
INSTALL = _c03.INSTALL
HARNESSES = [dict(h) for h in _c03.HARNESSES if h["name"].startswith("exchange")]
ASSUMPTIONS = _c03.ASSUMPTIONS + ["the acceptance obligations (ids C05.*) are decided inside the same harness runs as C03's; NTS-specific acceptance (unique identifier, S2C key) is decided by C10"]
SKIP_ASSERT_PREFIXES = ["C03."]   # the offset-accuracy assertions of the shared harnesses are decided by the C03 check
EXPLANATION = ""
CLAIMED = True
LEVEL_TEXT = "Bounded model checking of the real IP client exchange against an adversarial socket (up to 3 arbitrary datagrams of 0..48 bytes from arbitrary sources, arbitrary read errors/flags/stamps): a measurement succeeds only on the basis of a datagram from the queried address whose origin echoes the outstanding request's transmit stamp (or, for an interleaved request, its receive stamp), that is a server-mode v3/v4 packet with known leap status, stratum 1-15 and transmit time not before receive time; at most one request is sent and at most one retry is made; on error no offset is reported and the interleaved state is unchanged."
LEVEL_NOTE = "IP client, NTS off (the NTS acceptance conditions are C10's), SCION client not built; conversions by the C04 summaries; counterexamples are re-solved under replayability side conditions and replayed through real loopback sockets with a scripted peer."
