#!/usr/bin/env python3
"""Regenerates /verif/MANIFEST.json from the props/*.py modules."""
import importlib.util
import json
import os

ROOT = os.path.dirname(os.path.dirname(os.path.abspath(__file__)))
props = [json.loads(l)["id"] for l in open(os.path.join(ROOT, "properties.jsonl"))]
NA_DEFAULT = "check not built yet (framework under construction, see DESIGN.md section 9)"
TECH = "bounded symbolic execution of the real functions (go/ssa -> SMT-LIB2), one solver query per obligation, 4-way SMT portfolio (z3 4.8.12, z3 5.1, cvc5, cvc5 int-blasting), counterexamples replayed natively"

checks, na = [], []
for pid in props:
    path = os.path.join(ROOT, "props", pid.lower() + ".py")
    m = None
    if os.path.exists(path):
        spec = importlib.util.spec_from_file_location("p", path)
        m = importlib.util.module_from_spec(spec)
        spec.loader.exec_module(m)
    if m is None or not getattr(m, "CLAIMED", False):
        na.append({"property_id": pid, "reason": getattr(m, "NA_REASON", NA_DEFAULT) if m else NA_DEFAULT})
        continue
    checks.append({
        "property_id": pid,
        "quick_cmd": "bin/check %s --tier quick" % pid,
        "thorough_cmd": "bin/check %s --tier thorough" % pid,
        "evidence_file": "/verif/evidence/%s.json" % pid,
        "replay_cmd_template": "bin/check %s --replay {path}" % pid,
        "engine": "symex",
        "level_claimed": {"category": "model_checking", "text": m.LEVEL_TEXT, "design_ref": "DESIGN.md section 5, " + pid},
        "level_note": m.LEVEL_NOTE,
        "technique": getattr(m, "TECHNIQUE", TECH),
    })

man = {
    "version": 1,
    "setup_cmd": "cd /verif/ssaexport && GOFLAGS=-mod=mod GOPROXY=off GOTOOLCHAIN=local go1.26.8 build -o /verif/bin/ssaexport . && cd /verif && python3-vt -c 'import z3; import symex.engine'",
    "hooks": {
        "guard": "verif",
        "enable": "no source hooks: harness files (all carrying //go:build verif) are injected with go/packages overlays for the symbolic run and with go test -tags verif -overlay for native replay",
        "baseline_off_cmd": "cd /repo && GOFLAGS=-mod=mod GOPROXY=off go test -vet=off -count=1 -timeout 25m ./...",
        "source_commits": [],
        "add_only": True,
    },
    "engines": [{"name": "symex", "path": "/verif/symex", "serves_properties": [c["property_id"] for c in checks],
                 "kind_free_text": "Go SSA (golang.org/x/tools/go/ssa, regenerated from /repo on every run) -> guarded bounded symbolic execution in Python -> SMT-LIB2 -> solver portfolio; native replay of counterexamples through go test -overlay"}],
    "checks": checks,
    "notes": "exit 0 held / 1 violation replayed natively / 2 inconclusive. known_findings.txt lists recorded and fixed defects.",
    "not_applicable": na,
}
json.dump(man, open(os.path.join(ROOT, "MANIFEST.json"), "w"), indent=1)
print("claimed:", [c["property_id"] for c in checks])
