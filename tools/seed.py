#!/usr/bin/env python3
"""Confirm a seeded mutation and run checks against it.
usage: seed.py <prop id> <worktree> <mutation dir name> [--checks C04,C03] [--tier quick] [--only harness]
Steps (all in the scratch worktree, never in /repo):
  1. apply patch, build, full test suite must pass, demo test must FAIL
  2. run the registered check(s) against the mutated tree (VERIF_REPO=<worktree>)
  3. revert, demo test must PASS on the clean tree
  4. store patch, demo and meta.json under /verif/seeded/<prop>-<mutation>/"""
import json, os, re, shutil, subprocess, sys, time

ROOT = os.path.dirname(os.path.dirname(os.path.abspath(__file__)))
ENV = dict(os.environ, GOFLAGS="-mod=mod", GOPROXY="off")


def sh(cmd, cwd, timeout=1800, env=None):
    r = subprocess.run(cmd, cwd=cwd, shell=True, capture_output=True, text=True, timeout=timeout, env=env or ENV)
    return r.returncode, (r.stdout + r.stderr)


def main():
    pid, wt, mname = sys.argv[1:4]
    args = sys.argv[4:]
    checks = [pid]
    tier = "quick"
    only = None
    for i, a in enumerate(args):
        if a == "--checks":
            checks = args[i + 1].split(",")
        if a == "--tier":
            tier = args[i + 1]
        if a == "--only":
            only = args[i + 1]
    mdir = os.path.join(wt, "_mutations", mname)
    patch = os.path.join(mdir, "patch.diff")
    demo = os.path.join(mdir, "demo_test.go.txt")
    head = open(demo).read(600)
    m = re.search(r"copy to\s+(\S+_test\.go)", head)
    if not m:
        print("cannot find 'copy to <path>' in demo header"); sys.exit(2)
    demo_rel = m.group(1)
    pkgdir = os.path.dirname(demo_rel)
    meta = {"property": pid, "mutation": mname, "worktree": wt, "demo_path": demo_rel, "tier": tier, "steps": {}}
    sh("git checkout -- . ", wt)
    rc, out = sh("git apply %s" % patch, wt)
    meta["steps"]["apply"] = rc
    if rc != 0:
        print("patch does not apply:", out); sys.exit(2)
    try:
        rc, out = sh("go build ./... && go test -vet=off -count=1 ./... 2>&1 | grep -v 'no test files'", wt)
        suite_ok = rc == 0 and "FAIL" not in out
        meta["steps"]["build_and_suite_pass_with_mutation"] = suite_ok
        shutil.copy(demo, os.path.join(wt, demo_rel))
        rc, out = sh("go test -vet=off -count=1 ./%s 2>&1 | tail -15" % pkgdir, wt, env=dict(ENV, GOEXPERIMENT=os.environ.get("DEMO_GOEXPERIMENT", "")))
        demo_fails = "FAIL" in out
        meta["steps"]["demo_fails_with_mutation"] = demo_fails
        os.remove(os.path.join(wt, demo_rel))
        results = {}
        for c in checks:
            t0 = time.time()
            cmd = "python3-vt %s/symex/check.py %s --tier %s --no-evidence%s" % (ROOT, c, tier, (" --only " + only) if only else "")
            rc, out = sh(cmd, ROOT, timeout=7200, env=dict(os.environ, VERIF_REPO=wt))
            viol = [l for l in out.splitlines() if l.startswith("VIOLATION") or "violated:" in l]
            inconc = [l for l in out.splitlines() if l.startswith("INCONCLUSIVE")]
            results[c] = {"exit": rc, "violations": viol[:6], "inconclusive": inconc[:4], "seconds": round(time.time() - t0)}
            print("check %s on mutated tree: exit %d (%ds)" % (c, rc, time.time() - t0))
            for l in viol[:4]:
                print("   ", l[:200])
            for l in inconc[:3]:
                print("   ", l[:200])
        meta["checks"] = results
    finally:
        sh("git checkout -- . ", wt)
    shutil.copy(demo, os.path.join(wt, demo_rel))
    rc, out = sh("go test -vet=off -count=1 ./%s 2>&1 | tail -5" % pkgdir, wt, env=dict(ENV, GOEXPERIMENT=os.environ.get("DEMO_GOEXPERIMENT", "")))
    meta["steps"]["demo_passes_without_mutation"] = ("FAIL" not in out) and rc == 0
    os.remove(os.path.join(wt, demo_rel))
    meta["caught"] = any(r["exit"] == 1 for r in meta.get("checks", {}).values())
    print("suite passes with mutation:", meta["steps"]["build_and_suite_pass_with_mutation"], "| demo fails with:", meta["steps"]["demo_fails_with_mutation"], "| demo passes without:", meta["steps"]["demo_passes_without_mutation"], "| CAUGHT:", meta["caught"])
    valid = meta["steps"]["build_and_suite_pass_with_mutation"] and meta["steps"]["demo_fails_with_mutation"] and meta["steps"]["demo_passes_without_mutation"]
    meta["valid"] = valid
    if valid:
        sd = os.path.join(ROOT, "seeded", "%s-%s" % (pid, mname))
        os.makedirs(sd, exist_ok=True)
        shutil.copy(patch, os.path.join(sd, "patch.diff"))
        shutil.copy(demo, os.path.join(sd, "demo_test.go.txt"))
        if os.path.exists(os.path.join(mdir, "README.md")):
            shutil.copy(os.path.join(mdir, "README.md"), os.path.join(sd, "README.md"))
        meta["what_it_needs"] = "see README.md"
        meta["ran"] = "tools/seed.py %s" % " ".join(sys.argv[1:])
        json.dump(meta, open(os.path.join(sd, "meta.json"), "w"), indent=1)


main()
