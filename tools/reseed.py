#!/usr/bin/env python3
"""Re-run the registered quick checks against every stored seeded mutation (regression of the checks
themselves).  usage: reseed.py [<worktree>] [--only C06-m3,C11-m4] [--jobs N]
A scratch worktree of /repo (default /tmp/wt/reseed, created at HEAD when missing) receives one patch at
a time; meta.json of the mutation is updated with the new check result (steps/validity are kept)."""
import json, os, glob, subprocess, sys, time
ROOT = os.path.dirname(os.path.dirname(os.path.abspath(__file__)))


def sh(cmd, cwd, env=None, timeout=7200):
    r = subprocess.run(cmd, cwd=cwd, shell=True, capture_output=True, text=True, timeout=timeout, env=env)
    return r.returncode, r.stdout + r.stderr


def main():
    args = sys.argv[1:]
    wt = "/tmp/wt/reseed"
    only = None
    shard = None
    if args and not args[0].startswith("--"):
        wt = args.pop(0)
    for i, a in enumerate(args):
        if a == "--only":
            only = set(args[i + 1].split(","))
        if a == "--shard":          # i/n: every n-th mutation starting at i (parallel runs, one worktree each)
            shard = tuple(int(x) for x in args[i + 1].split("/"))
    if not os.path.isdir(wt):
        rc, out = sh("git -C /repo worktree add --detach %s HEAD" % wt, "/")
        if rc != 0:
            print(out); sys.exit(2)
    sh("git checkout -- . && git clean -fdq", wt)
    rc, out = sh("git -C %s rev-parse HEAD; git -C /repo rev-parse HEAD" % wt, "/")
    a, b = out.split()[:2]
    if a != b:
        sh("git checkout --detach %s" % b, wt)
    res = []
    for k, d in enumerate(sorted(glob.glob(os.path.join(ROOT, "seeded", "*", "meta.json")))):
        name = os.path.basename(os.path.dirname(d))
        if only and name not in only:
            continue
        if shard and k % shard[1] != shard[0]:
            continue
        m = json.load(open(d))
        patch = os.path.join(os.path.dirname(d), "patch.diff")
        rc, out = sh("git apply %s" % patch, wt)
        if rc != 0:
            print("%s: patch no longer applies" % name); res.append((name, "noapply")); continue
        try:
            checks = list((m.get("checks") or {m["property"]: 0}).keys())
            results = {}
            for c in checks:
                t0 = time.time()
                rc, out = sh("python3-vt %s/symex/check.py %s --tier quick --no-evidence" % (ROOT, c), ROOT, env=dict(os.environ, VERIF_REPO=wt))
                viol = [l for l in out.splitlines() if l.startswith("VIOLATION") or "violated:" in l]
                inconc = [l for l in out.splitlines() if l.startswith("INCONCLUSIVE")]
                results[c] = {"exit": rc, "violations": viol[:6], "inconclusive": inconc[:4], "seconds": round(time.time() - t0)}
            caught = any(r["exit"] == 1 for r in results.values())
            was = m.get("caught")
            m["checks"], m["caught"] = results, caught
            m["rechecked"] = time.strftime("%Y-%m-%dT%H:%M:%SZ", time.gmtime())
            json.dump(m, open(d, "w"), indent=1)
            print("%s caught=%s (was %s) %s" % (name, caught, was, {c: (r["exit"], r["seconds"]) for c, r in results.items()}), flush=True)
            res.append((name, caught))
        finally:
            sh("git checkout -- . && git clean -fdq", wt)
    missed = [n for n, c in res if c is not True]
    print("re-checked %d mutations, not caught: %s" % (len(res), missed))


main()
