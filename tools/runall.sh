#!/bin/sh
# runs the quick (or given) tier of every claimed check, one after the other; summary at the end
TIER=${1:-quick}
cd "$(dirname "$0")/.."
for p in $(python3 -c "import json;print(' '.join(c['property_id'] for c in json.load(open('MANIFEST.json'))['checks']))"); do
  s=$(date +%s)
  bin/check $p --tier $TIER > /tmp/runall_$p.log 2>&1
  rc=$?
  e=$(date +%s)
  echo "$p rc=$rc $((e-s))s $(grep -c 'KNOWN-FINDING' /tmp/runall_$p.log) known $(grep -c '^VIOLATION' /tmp/runall_$p.log) viol $(grep -c '^INCONCLUSIVE' /tmp/runall_$p.log) inconcl"
done
