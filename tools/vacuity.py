import sys
sys.path.insert(0,'/verif')
from symex import check, ir, engine, solve
import tempfile, z3
pid, hname = sys.argv[1], sys.argv[2]
prop=check.load_prop(pid)
wd=tempfile.mkdtemp()
irp,_=check.export_ir(prop,wd)
prog=ir.Program(irp)
h=[x for x in prop.HARNESSES if x['name']==hname][0]
E,_=check.run_harness(prog,prop,h,'quick',wd)
ob=[o for o in E.obligations if o.kind=='reach'][-1]
print("reach guard:", str(ob.guard)[:300])
A=E.assumptions[:ob.assum_n]
def sat(n):
    s=z3.Solver(); s.set('timeout',20000)
    for a in A[:n]: s.add(a)
    s.add(ob.guard)
    return s.check()
lo,hi=0,len(A)
print("all:", sat(hi), "none:", sat(0))
while hi-lo>1:
    mid=(lo+hi)//2
    if sat(mid)==z3.unsat: hi=mid
    else: lo=mid
print("first bad assumption index", hi-1, E.assumption_notes[hi-1])
print(str(A[hi-1])[:1500])
