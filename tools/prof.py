import sys, signal, traceback, cProfile, pstats
sys.path.insert(0,'/verif')
from symex import check, ir, engine, solve
import tempfile
pid, hname, secs = sys.argv[1], sys.argv[2], int(sys.argv[3])
tier = sys.argv[4] if len(sys.argv) > 4 else 'quick'
prop=check.load_prop(pid)
wd=tempfile.mkdtemp()
irp,_=check.export_ir(prop,wd)
prog=ir.Program(irp)
h=[x for x in prop.HARNESSES if x['name']==hname][0]
import os
if os.environ.get('TRACE'): h.setdefault('cfg',{})['trace']=True
pr=cProfile.Profile()
def onalarm(sig, frm):
    pr.disable()
    st=traceback.extract_stack(frm)
    print("".join(traceback.format_list(st[-25:])))
    pstats.Stats(pr).sort_stats('cumulative').print_stats(35)
    sys.exit(3)
signal.signal(signal.SIGALRM,onalarm); signal.alarm(secs)
pr.enable()
E,_=check.run_harness(prog,prop,h,tier,wd)
pr.disable()
print("done", len(E.obligations), E.stats.get('prune_checks'), E.stats['blocks'], E.stats['instrs'])
pstats.Stats(pr).sort_stats('cumulative').print_stats(25)
