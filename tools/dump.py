import sys
sys.path.insert(0,'/verif')
from symex import check, ir, engine, solve
import z3, tempfile
pid, hname, obpat, out = sys.argv[1:5]
tier = sys.argv[5] if len(sys.argv)>5 else 'quick'
prop=check.load_prop(pid)
wd=tempfile.mkdtemp()
irp,_=check.export_ir(prop,wd)
prog=ir.Program(irp)
h=[x for x in prop.HARNESSES if x['name']==hname][0]
E,_=check.run_harness(prog,prop,h,tier,wd)
ob=[o for o in E.obligations if obpat in o.id][0]
E.assumptions=E.assumptions[:ob.assum_n]
assumptions=list(E.assumptions)+E.str_axioms()
terms=[ob.guard,z3.Not(ob.claim)]
asserts=solve.relevant(assumptions,terms)+terms
q=solve.Query(ob,asserts,[])
open(out,'w').write(q.text_for('x'))
print(len(open(out).read()), 'bytes', q.logic)
