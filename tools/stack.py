import sys, faulthandler
sys.path.insert(0,'/verif')
from symex import check, ir, engine, solve
import tempfile
pid, hname, secs = sys.argv[1], sys.argv[2], int(sys.argv[3])
prop=check.load_prop(pid)
wd=tempfile.mkdtemp()
irp,_=check.export_ir(prop,wd)
prog=ir.Program(irp)
h=[x for x in prop.HARNESSES if x['name']==hname][0]
faulthandler.dump_traceback_later(secs, exit=True)
E,_=check.run_harness(prog,prop,h,'quick',wd)
print("done", len(E.obligations))
