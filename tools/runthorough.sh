#!/bin/sh
# run the thorough-only harnesses of every claimed property one after the other (no evidence written);
# log per harness: /tmp/thorough_<id>_<harness>.log, summary on stdout
cd "$(dirname "$0")/.."
python3-vt - <<'PY' > /tmp/thorough_list.$$.raw
import sys
sys.path.insert(0,'.')
from symex import check
for i in range(1,21):
    pid='C%02d'%i
    p=check.load_prop(pid)
    if not getattr(p,'CLAIMED',False): continue
    for h in getattr(p,'HARNESSES',[]):
        if h.get('thorough_only'): print(pid,h['name'])
PY
grep -v WARNING /tmp/thorough_list.$$.raw > /tmp/thorough_list.$$.txt; rm -f /tmp/thorough_list.$$.raw
while read pid h; do
  case " ${PROPS:-$pid} " in *" $pid "*) ;; *) continue;; esac
  case " $SKIP " in *" $pid:$h "*) continue;; esac
  t0=$(date +%s)
  timeout ${TMO:-1800} bin/check $pid --tier thorough --only $h --no-evidence > /tmp/thorough_${pid}_$h.log 2>&1
  rc=$?
  echo "$pid $h rc=$rc $(( $(date +%s) - t0 ))s $(grep -c INCONCLUSIVE /tmp/thorough_${pid}_$h.log) inconcl"
done < /tmp/thorough_list.$$.txt
rm -f /tmp/thorough_list.$$.txt
