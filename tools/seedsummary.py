#!/usr/bin/env python3
import json, os, glob
ROOT = os.path.dirname(os.path.dirname(os.path.abspath(__file__)))
rows = []
for d in sorted(glob.glob(os.path.join(ROOT, "seeded", "*", "meta.json"))):
    m = json.load(open(d))
    name = os.path.basename(os.path.dirname(d))
    readme = os.path.join(os.path.dirname(d), "README.md")
    what = ""
    if os.path.exists(readme):
        for l in open(readme):
            l = l.strip()
            if l and not l.startswith("#"):
                what = l[:160]
                break
    caught_by = []
    for c, r in (m.get("checks") or {}).items():
        if r["exit"] == 1:
            keys = sorted(set(v.split("key=")[-1][:90] for v in r["violations"] if "key=" in v))
            caught_by.append("%s (%s)" % (c, "; ".join(keys[:2])))
    rows.append("| %s | %s | %s | %s |" % (name, "yes" if m.get("caught") else "NO", ", ".join(caught_by) or "-", what.replace("|", "/")))
out = "# Seeded mutations\n\nEach was confirmed in a scratch worktree (suite passes with it, demonstration test fails with it and passes without it) and then the registered check(s) were run against the mutated tree.\n\n| mutation | caught | by | what |\n|---|---|---|---|\n" + "\n".join(rows) + "\n"
open(os.path.join(ROOT, "seeded", "SUMMARY.md"), "w").write(out)
print(out)
